"""C15 -- controller saturations and zero-error laws (spec/Controllers.tla).

engine A  every step state / vector of the TLC state graph (dump) is ONE call of the real
          CasADi function: rate integrator, position loop, velocity-mode input, ball
          saturation of the PD term, filter coefficient, stick maps, attitude error law.
engine B  behaviours from `tlc -simulate` are replayed step by step, the memory fed back is
          the CODE's own output exactly as scripts/rdd2_sim.py does (i0,e0,de0 / z_i /
          psi_sp,pw_sp); after every step the memory is compared with the spec state and
          every bound is checked on the code's outputs.
random    long random-input recursions (a few thousand steps) checking ONLY the bounds.

Verdicts (DESIGN 5): violations come only from what the property text promises (bounds,
reset, alpha in (0,1), linear+bounded stick maps, attitude error law); a mismatch with an
exact expected value the text does not promise (integrator value, congruent yaw, the exact
leashed point, direction of the saturated PD term, alpha enclosure) is SPEC-DRIFT.
"""
import glob
import json
import math
import os
import sys
import zlib

import numpy as np

from harness.core import Run, run_tlc, parse_dump, parse_sim_file, main_wrap, MachineryError
from harness.cas import batch_call
from harness.lie import so3_param

PID = "C15"
TOL = 1e-9
# units of the spec lattice (spec/Controllers.tla)
E_U, DT_U, I_U = 1.0 / 8, 1.0 / 256, 1.0 / 2048          # rate error, time step, integrator
PD = 105.0                                               # PD term = P * pmax / PD
VU = 210.0                                               # length units per metre
LEASH = 2.0                                              # metres (property text)
NEAR_PI = 0.01                                           # excluded band around 180 deg (rad)
ZW = np.array([0.0, 0.0, 1.0])


# --------------------------------------------------------------------------------------
# functions under test, built from the working tree
# --------------------------------------------------------------------------------------
class Fns:
    def __init__(self, zmaxes=(0,)):
        from cyecca.models import rdd2, rdd2_loglinear as ll
        self.rdd2 = rdd2
        for a in ("m", "g", "kp_pos", "kp_vel", "ki_z", "z_integral_max"):
            if not hasattr(rdd2, a):
                raise MachineryError(f"rdd2.{a} not found (embedding of the position loop needs it)")
        self.m, self.g = float(rdd2.m), float(rdd2.g)
        self.kp_pos, self.kp_vel, self.ki_z = float(rdd2.kp_pos), float(rdd2.kp_vel), float(rdd2.ki_z)
        self.pmax = 0.3 * self.m * self.g                 # "30 % of weight"
        self.shipped_zmax = float(rdd2.z_integral_max)
        self.rate = rdd2.derive_attitude_rate_control()["attitude_rate_control"]
        self.pos = {}
        self.vel = rdd2.derive_input_velocity()["input_velocity"]
        self.acro = rdd2.derive_input_acro()["input_acro"]
        self.level = rdd2.derive_input_auto_level()["input_auto_level"]
        self.att = rdd2.derive_attitude_control()["attitude_control"]
        self.so3att = ll.derive_so3_attitude_control()["so3_attitude_control"]
        self.se23err = ll.derive_se23_error()["se23_error"]
        self.se23att = ll.derive_outerloop_control()["se23_attitude_control"]
        for z in zmaxes:
            self.pos_fn(z)
        self.calibrate()

    def pos_fn(self, zmax_units):
        """position_control with the module constant z_integral_max (the height integrator's
        limit) set to zmax_units/2048; 0 is the shipped value."""
        zmax_units = int(zmax_units)
        if zmax_units not in self.pos:
            old = self.rdd2.z_integral_max
            try:
                if zmax_units * I_U != self.shipped_zmax:
                    self.rdd2.z_integral_max = zmax_units * I_U
                self.pos[zmax_units] = self.rdd2.derive_position_control()["position_control"]
            finally:
                self.rdd2.z_integral_max = old
        return self.pos[zmax_units]

    def calibrate(self):
        """stick -> (world velocity at yaw 0, yaw rate) read from the code at the unit sticks"""
        G = np.zeros((4, 4))
        z3 = np.zeros(3)
        base = self.vel(0.0, 0.0, z3, z3, np.zeros(4), 0.0)
        for k in range(4):
            s = np.zeros(4); s[k] = 1.0
            o = self.vel(0.0, 0.0, z3, z3, s, 0.0)
            G[0:3, k] = np.array(o[3]).ravel() - np.array(base[3]).ravel()
            G[3, k] = float(o[1]) - float(base[1])
        if not np.all(np.isfinite(G)) or abs(np.linalg.det(G)) < 1e-9:
            raise MachineryError(f"input_velocity calibration: stick map not invertible: {G.tolist()}")
        self.G = G
        self.Ginv = np.linalg.inv(G)


def call(f, cols):
    """evaluate f on columns; direct calls for a handful of columns, mapped batches otherwise"""
    cols = [np.atleast_2d(np.asarray(c, float)) for c in cols]
    n = max(c.shape[1] for c in cols)
    if n > 8:
        return batch_call(f, cols)
    outs = [np.empty((f.numel_out(j), n)) for j in range(f.n_out())]
    for k in range(n):
        r = f(*[c[:, k if c.shape[1] > 1 else 0] for c in cols])
        if not isinstance(r, (list, tuple)):
            r = [r]
        for j, rj in enumerate(r):
            outs[j][:, k] = np.array(rj).ravel(order="F")
    from harness import cas as _cas       # results appended to an exported function: callers unpack the pinned interface
    nm = f.name()
    for k_, v_ in (_cas.IFACE or {}).items():
        if (k_ == nm or k_.endswith(":" + nm)) and len(v_["in"]) == f.n_in() and len(v_["out"]) < f.n_out() \
                and [f.name_out(j) for j in range(len(v_["out"]))] == list(v_["out"]):
            _cas.APPENDED.add(nm)
            return outs[:len(v_["out"])]
    return outs


# --------------------------------------------------------------------------------------
# deterministic pseudo-random embedding details, keyed by (seed, state) so that a replay
# file reproduces the identical call
# --------------------------------------------------------------------------------------
def jkey(obj):
    return zlib.crc32(json.dumps(obj, sort_keys=True, default=list).encode())


def keys_of(seed, sts, salt=0):
    return np.array([(jkey(s) ^ (seed * 2654435761) ^ (salt * 40503)) & 0xFFFFFFFF for s in sts], dtype=np.uint64)


def mix(keys, j):
    with np.errstate(over="ignore"):
        z = keys * np.uint64(0x9E3779B97F4A7C15) + np.uint64(j + 1) * np.uint64(0xD1B54A32D192ED03)
        z = (z ^ (z >> np.uint64(30))) * np.uint64(0xBF58476D1CE4E5B9)
        z = (z ^ (z >> np.uint64(27))) * np.uint64(0x94D049BB133111EB)
        return z ^ (z >> np.uint64(31))


def dyad(keys, j, lo, hi, den):
    """pseudo-random dyadic numbers in [lo, hi] with denominator den, one per key"""
    span = int((hi - lo) * den) + 1
    return lo + (mix(keys, j) % np.uint64(span)).astype(float) / den


def pick(keys, j, choices):
    return np.array(choices, float)[(mix(keys, j) % np.uint64(len(choices))).astype(int)]


def dyad3(keys, j, lo, hi, den):
    return np.vstack([dyad(keys, 3 * j + 100, lo, hi, den), dyad(keys, 3 * j + 101, lo, hi, den), dyad(keys, 3 * j + 102, lo, hi, den)])


def arr(sts, *path):
    out = []
    for s in sts:
        v = s
        for p in path:
            v = v[p]
        out.append(v)
    return np.array(out, float).T


def close(a, b, scale=None):
    """|a-b| <= TOL * max(1, |b|_inf) per column"""
    sc = np.maximum(1.0, np.max(np.abs(np.atleast_2d(b)), axis=0)) if scale is None else scale
    with np.errstate(invalid="ignore"):
        return np.max(np.abs(np.atleast_2d(a) - np.atleast_2d(b)), axis=0) <= TOL * sc


class Ctx:
    def __init__(self, run, F):
        self.run, self.F, self.seed = run, F, run.seed
        self.cells = {}
        self.nontrivial = 0
        self.where = None       # replay payload of the behaviour being replayed (engine B)
        self.act = {}

    def cell(self, name, n=1):
        self.cells[name] = self.cells.get(name, 0) + n

    def payload(self, st, extra):
        d = {"kind": "vector", "st": st} if self.where is None else dict(self.where)
        d.update(extra)
        return d


# --------------------------------------------------------------------------------------
# rate controller: one call per step state
# --------------------------------------------------------------------------------------
def rate_eval(ctx, sts, mem=None, salt=0):
    """sts: RateStep states.  mem: None (embed the spec's pre-memory; random e0,de0) or
    dict(i0,e0,de0) of the code's own previous outputs.  Returns the code's new memory."""
    run, F = ctx.run, ctx.F
    n = len(sts)
    K = keys_of(ctx.seed, sts, salt)
    lim = arr(sts, "lim") * I_U
    e = arr(sts, "in", "e") * E_U
    dt = np.array([s["in"]["dt"] for s in sts], float) * DT_U
    exp_i = arr(sts, "i") * I_U
    pre_i = arr(sts, "pre", "i") * I_U
    if mem is None:
        i0, e0, de0 = pre_i, dyad3(K, 1, -2, 2, 16), dyad3(K, 2, -8, 8, 4)
    else:
        i0, e0, de0 = mem["i0"], mem["e0"], mem["de0"]
    omega = dyad3(K, 3, -4, 4, 8)
    omega_r = omega + e
    kp, ki, kd = dyad3(K, 4, 0, 4, 16), dyad3(K, 5, 0, 2, 16), dyad3(K, 6, 0, 1, 16)
    fcut = pick(K, 7, [0.5, 1, 10, 40, 250])
    M, i1, e1, de1, al = call(F.rate, [kp, ki, kd, fcut[None], lim, omega, omega_r, i0, e0, de0, dt[None]])
    run.count("evaluations", n)
    fin = np.all(np.isfinite(np.vstack([M, i1, e1, de1, al])), axis=0)
    with np.errstate(invalid="ignore"):
        inb = np.all(np.abs(i1) <= lim, axis=0)
        a_ok = (al[0] > 0) & (al[0] < 1)
        v_ok = close(i1, exp_i)
        e_ok = close(e1, e)
    clamped = np.any(pre_i + e * dt != exp_i, axis=0)
    ctx.nontrivial += int(np.sum(clamped))
    ctx.cell("rate/clamped", int(np.sum(clamped))); ctx.cell("rate/free", int(n - np.sum(clamped)))
    for k in range(n):
        if fin[k] and inb[k] and a_ok[k] and v_ok[k] and e_ok[k]:
            continue
        data = ctx.payload(sts[k], {"args": {"kp": kp[:, k].tolist(), "ki": ki[:, k].tolist(), "kd": kd[:, k].tolist(),
                                             "f_cut": float(fcut[k]), "i_max": lim[:, k].tolist(), "omega": omega[:, k].tolist(),
                                             "omega_r": omega_r[:, k].tolist(), "i0": i0[:, k].tolist(), "e0": e0[:, k].tolist(),
                                             "de0": de0[:, k].tolist(), "dt": float(dt[k])},
                                    "i1": i1[:, k].tolist(), "alpha": float(al[0, k]), "expected_i1": exp_i[:, k].tolist()})
        if not fin[k]:
            run.violation("attitude_rate_control/finite", "non-finite output", data)
            continue
        if not inb[k]:
            run.violation("attitude_rate_control/i_bound", "integrator output leaves [-i_max, i_max]", data)
        elif not v_ok[k]:
            run.spec_drift("attitude_rate_control/i_recursion", "integrator memory differs from clamp(i + e*dt) (bound holds)")
        if not a_ok[k]:
            run.violation("attitude_rate_control/alpha_range", "derivative filter coefficient not strictly inside (0, 1)", data)
        if not e_ok[k]:
            run.spec_drift("attitude_rate_control/e_memory", "error memory differs from omega_r - omega")
    good = fin & inb & v_ok
    if np.any(good):
        run.err(float(np.max(np.abs(i1 - exp_i)[:, good])))
    return {"i0": i1, "e0": e1, "de0": de1}


# --------------------------------------------------------------------------------------
# position loop
# --------------------------------------------------------------------------------------
def zb_of(q):
    """third column of the rotation matrix of quaternion columns q (4,n), normalised"""
    w, x, y, z = q
    n2 = w * w + x * x + y * y + z * z
    return np.vstack([2 * (x * z + w * y), 2 * (y * z - w * x), w * w - x * x - y * y + z * z]) / n2


def pos_eval(ctx, sts, mem=None, salt=0, recursion=True):
    """sts: PosStep states (recursion=True) or psat vectors (recursion=False, no integrator step)."""
    run, F = ctx.run, ctx.F
    n = len(sts)
    K = keys_of(ctx.seed, sts, salt)
    u = F.pmax / PD
    if recursion:
        P = arr(sts, "in", "P")
        zmaxs = np.array([s["zmax"] for s in sts], int)
        ez = np.array([s["in"]["ez"] for s in sts], float) * E_U
        dt = np.array([s["in"]["dt"] for s in sts], float) * DT_U
        exp_z = np.array([s["z"] for s in sts], float) * I_U
        pre_z = np.array([s["pre"]["z"] for s in sts], float) * I_U
    else:
        P = arr(sts, "P")
        zmaxs = np.zeros(n, int)
        ez = dyad(K, 20, -2, 2, 8)
        dt = pick(K, 21, [1.0 / 256, 1.0 / 64, 0.5])
        exp_z = np.zeros(n); pre_z = np.zeros(n)
    z0 = pre_z if mem is None else mem["z"]
    exp_s = np.array([np.array(s["psat"]["num"], float) / float(s["psat"]["den"]) for s in sts]).T * F.pmax
    cells = [s["cell"] for s in sts]
    # embedding: errors from the lattice, acceleration feed-forward solved so that the PD term is P*u
    e_p = np.vstack([dyad(K, 22, -3, 3, 8), dyad(K, 23, -3, 3, 8), ez])
    e_v = dyad3(K, 8, -2, 2, 8)
    at_w = (P * u + F.kp_pos * e_p + F.kp_vel * e_v) / F.m
    pt_w = dyad3(K, 9, -5, 5, 4)
    vt_w = dyad3(K, 10, -2, 2, 4)
    p_w, v_w = pt_w + e_p, vt_w + e_v
    yaw = dyad(K, 24, -3, 3, 16)
    qc = np.vstack([np.cos(yaw / 2), 0 * yaw, 0 * yaw, np.sin(yaw / 2)])
    trim = pick(K, 25, [F.m * F.g, 0.5 * F.m * F.g, 1.25 * F.m * F.g])
    nT = np.empty(n); qr = np.empty((4, n)); z2 = np.empty(n); nT0 = np.empty(n)
    for zm in sorted(set(zmaxs.tolist())):
        sel = np.nonzero(zmaxs == zm)[0]
        f = F.pos_fn(zm)
        cols = [trim[None, sel], pt_w[:, sel], vt_w[:, sel], at_w[:, sel], qc[:, sel], p_w[:, sel], v_w[:, sel], z0[None, sel], dt[None, sel]]
        o = call(f, cols)
        nT[sel], qr[:, sel], z2[sel] = o[0][0], o[1], o[2][0]
        cols[0] = np.zeros((1, len(sel))); cols[7] = np.zeros((1, len(sel)))        # probe: zero trim, zero integrator
        nT0[sel] = call(f, cols)[0][0]
        run.count("evaluations", 2 * len(sel))
    fin = np.isfinite(nT) & np.isfinite(z2) & np.all(np.isfinite(qr), axis=0) & np.isfinite(nT0)
    zlim = zmaxs * I_U
    with np.errstate(invalid="ignore"):
        z_in = np.abs(z2) <= zlim
        z_ok = close(z2[None], exp_z[None]) if recursion else np.ones(n, bool)
        p0_in = nT0 <= F.pmax * (1 + TOL)
        p0_ok = np.abs(nT0 - np.linalg.norm(exp_s, axis=0)) <= TOL * max(1.0, F.pmax)
        T = nT * zb_of(qr)
        ps = T - (trim + F.ki_z * z0) * ZW[:, None]
        p_in = np.linalg.norm(ps, axis=0) <= F.pmax * (1 + TOL) + 1e-12
        p_ok = np.max(np.abs(ps - exp_s), axis=0) <= TOL * max(1.0, F.pmax)
    zcl = (pre_z - ez * dt != exp_z) if recursion else np.zeros(n, bool)
    for k in range(n):
        c = cells[k]
        ctx.cell("pterm/" + c)
        if c in ("boundary", "outside") or zcl[k]:
            ctx.nontrivial += 1
        if fin[k] and z_in[k] and z_ok[k] and p0_in[k] and p0_ok[k] and p_in[k] and p_ok[k]:
            continue
        data = ctx.payload(sts[k], {"args": {"thrust_trim": float(trim[k]), "pt_w": pt_w[:, k].tolist(), "vt_w": vt_w[:, k].tolist(),
                                             "at_w": at_w[:, k].tolist(), "qc_wb": qc[:, k].tolist(), "p_w": p_w[:, k].tolist(),
                                             "v_w": v_w[:, k].tolist(), "z_i": float(z0[k]), "dt": float(dt[k])},
                                    "z_integral_max": float(zlim[k]), "nT": float(nT[k]), "nT_zero_trim": float(nT0[k]),
                                    "z_i_2": float(z2[k]), "p_sat_observed": ps[:, k].tolist(), "p_sat_expected": exp_s[:, k].tolist(),
                                    "p_norm_max": F.pmax})
        if not fin[k]:
            run.violation("position_control/finite", "non-finite output", data)
            continue
        if not z_in[k]:
            run.violation("position_control/z_bound", "height integrator leaves [-z_integral_max, z_integral_max]", data)
        elif not z_ok[k]:
            run.spec_drift("position_control/z_recursion", "height integrator differs from clamp(z - e_z*dt) (bound holds)")
        if not p0_in[k]:
            run.violation(f"position_control/p_bound/{c}", "thrust with zero trim and integrator (= norm of the feedback term) exceeds 0.3 m g", data)
        elif not p_in[k]:
            run.violation(f"position_control/p_bound_in_loop/{c}", "feedback term (thrust vector minus trim and integrator) exceeds 0.3 m g", data)
        elif not (p0_ok[k] and p_ok[k]):
            run.spec_drift(f"position_control/p_sat_value/{c}", "saturated feedback term differs from the radial projection (bound holds)")
    return {"z": z2}


# --------------------------------------------------------------------------------------
# velocity-mode input
# --------------------------------------------------------------------------------------
def vel_eval(ctx, sts, mem=None, salt=0):
    run, F = ctx.run, ctx.F
    n = len(sts)
    K = keys_of(ctx.seed, sts, salt)
    N = np.array([s["N"] for s in sts], float)
    yi = np.array([s["in"]["yi"] for s in sts], float)
    d = arr(sts, "in", "d") / VU
    dt = np.array([s["in"]["dtq"] for s in sts], float) / 4.0
    reset = np.array([1.0 if s["in"]["reset"] else 0.0 for s in sts])
    pw = arr(sts, "pw") / VU
    exp_sp = arr(sts, "sp") / VU
    exp_psi = np.array([s["k"] for s in sts], float) * math.pi / N
    pre_psi = np.array([s["pre"]["k"] for s in sts], float) * math.pi / N
    origin = dyad3(K, 11, -8, 8, 2) if mem is None else mem["origin"]
    psi0 = pre_psi if mem is None else mem["psi"]
    sp0 = (arr(sts, "pre", "sp") / VU + origin) if mem is None else mem["sp"]
    pw = pw + origin
    exp_sp = exp_sp + origin
    # sticks realising (yaw increment, world displacement d) through the calibrated map
    psi1 = pre_psi + yi * math.pi / N
    c, s_ = np.cos(psi1), np.sin(psi1)
    vb = np.vstack([c * d[0] + s_ * d[1], -s_ * d[0] + c * d[1], d[2]]) / dt
    rhs = np.vstack([vb, (yi * math.pi / N / dt)[None]])
    stick = F.Ginv @ rhs
    if np.max(np.abs(stick)) > 1 + 1e-9:
        raise MachineryError("velocity-mode sticks leave [-1,1]: the code's stick authority is smaller than the spec assumes "
                             f"(max |stick| = {np.max(np.abs(stick)):.3f}; calibrated map {F.G.tolist()})")
    stick = np.clip(stick, -1.0, 1.0)
    o = call(F.vel, [dt[None], psi0[None], sp0, pw, stick, reset[None]])
    run.count("evaluations", n)
    psi_o, sp_o, vw_o = o[0][0], o[2], o[3]
    fin = np.isfinite(psi_o) & np.all(np.isfinite(sp_o), axis=0)
    with np.errstate(invalid="ignore"):
        y_in = np.abs(psi_o) <= math.pi + 1e-12
        y_ok = np.abs(np.remainder(psi_o - exp_psi + math.pi, 2 * math.pi) - math.pi) <= TOL
        dist = np.linalg.norm(sp_o - pw, axis=0)
        l_in = dist <= LEASH * (1 + TOL)
        r_ok = (reset == 0) | (np.max(np.abs(sp_o - pw), axis=0) <= TOL)
        s_ok = close(sp_o - pw, exp_sp - pw, scale=np.full(n, LEASH))
        v_ok = np.max(np.abs(vw_o * dt - d), axis=0) <= 1e-9 * np.maximum(1.0, np.max(np.abs(d), axis=0))
    for k in range(n):
        st = sts[k]
        c = st["cell"]
        ctx.cell("leash/" + c)
        wrapped = st["k"] != st["pre"]["k"] + st["in"]["yi"]
        if st["tie"]:
            ctx.cell("yaw/tie->" + ("+pi" if psi_o[k] > 0 else "-pi"))
        elif wrapped:
            ctx.cell("yaw/wrapped")
        else:
            ctx.cell("yaw/plain")
        if st["in"]["reset"]:
            ctx.cell("reset/" + ("moved" if list(st["pre"]["sp"]) != list(st["pw"]) else "already-there"))
        if c in ("boundary", "outside") or wrapped or st["tie"] or st["in"]["reset"]:
            ctx.nontrivial += 1
        if fin[k] and y_in[k] and y_ok[k] and l_in[k] and r_ok[k] and s_ok[k] and v_ok[k]:
            continue
        data = ctx.payload(st, {"args": {"dt": float(dt[k]), "psi_sp": float(psi0[k]), "pw_sp": sp0[:, k].tolist(), "pw": pw[:, k].tolist(),
                                         "input_aetr": stick[:, k].tolist(), "reset_position": float(reset[k])},
                                "psi_sp1": float(psi_o[k]), "pw_sp1": sp_o[:, k].tolist(), "distance": float(dist[k]),
                                "expected_psi": float(exp_psi[k]), "expected_pw_sp1": exp_sp[:, k].tolist()})
        if not fin[k]:
            run.violation("input_velocity/finite", "non-finite output", data)
            continue
        if not y_in[k]:
            run.violation("input_velocity/yaw_range", "yaw set-point leaves [-pi, pi]", data)
        elif not y_ok[k]:
            run.spec_drift("input_velocity/yaw_value", "yaw set-point is not congruent to psi + rate*dt modulo 2 pi (range holds)")
        if st["in"]["reset"] and not r_ok[k]:
            run.violation("input_velocity/reset", "reset does not put the position set-point on the vehicle", data)
        if not l_in[k]:
            run.violation(f"input_velocity/leash/{c}", "position set-point farther than 2 m from the vehicle", data)
        elif r_ok[k] and not s_ok[k]:
            if not v_ok[k]:
                run.spec_drift("input_velocity/velocity_map", "vw_sp*dt differs from the displacement solved through the calibrated stick map")
            else:
                run.spec_drift(f"input_velocity/sp_value/{c}", "set-point differs from vehicle + radial projection of the error (leash holds)")
    return {"psi": psi_o, "sp": sp_o, "origin": origin}


# --------------------------------------------------------------------------------------
# filter coefficient and stick maps (vectors)
# --------------------------------------------------------------------------------------
def alpha_eval(ctx, sts):
    run, F = ctx.run, ctx.F
    n = len(sts)
    dt = np.array([s["dt"][0] / s["dt"][1] for s in sts], float)
    fc = np.array([s["f"][0] / s["f"][1] for s in sts], float)
    lo = np.array([s["lo"][0] / s["lo"][1] for s in sts], float)
    hi = np.array([s["hi"][0] / s["hi"][1] for s in sts], float)
    z = np.zeros((3, 1))
    al = call(F.rate, [z + 1, z, z + 1, fc[None], z + 1, z, z, z, z, z, dt[None]])[4][0]
    run.count("evaluations", n)
    for k in range(n):
        ctx.cell("alpha")
        data = ctx.payload(sts[k], {"dt": float(dt[k]), "f_cut": float(fc[k]), "alpha": float(al[k])})
        if not (al[k] > 0 and al[k] < 1):
            run.violation("attitude_rate_control/alpha_range", "derivative filter coefficient not strictly inside (0, 1)", data)
        elif not (lo[k] * (1 - 1e-12) <= al[k] <= hi[k] * (1 + 1e-12)):
            run.spec_drift("attitude_rate_control/alpha_value", "alpha outside the enclosure of 2 pi dt f/(2 pi dt f + 1)")


def euler_of(q):
    w, x, y, z = q / np.linalg.norm(q, axis=0)
    return np.vstack([np.arctan2(2 * (w * z + x * y), 1 - 2 * (y * y + z * z)),
                      np.arcsin(np.clip(2 * (w * y - z * x), -1, 1)),
                      np.arctan2(2 * (w * x + y * z), 1 - 2 * (x * x + y * y))])


LEVEL_Q = [(1, 0, 0, 0), (-1, 0, 0, 0), (2, 0, 0, 1), (-3, 0, 0, 2), (0, 0, 0, 1), (1, 0, 0, -1), (10, 1, 0, 3), (-10, 0, 1, -20), (5, 1, -1, 2)]


def stick_eval(ctx, sts):
    run, F = ctx.run, ctx.F
    n = len(sts)
    K = keys_of(ctx.seed, sts)
    s1 = arr(sts, "s1") / 8.0
    s2 = arr(sts, "s2") / 8.0
    lam = np.array([s["lam"][0] / s["lam"][1] for s in sts], float)
    trim = pick(K, 30, [0.0, 21.952, 10.0])
    delta = pick(K, 31, [19.7568, 5.0, -3.0])
    qi = (mix(K, 32) % np.uint64(len(LEVEL_Q))).astype(int)
    q = np.array([so3_param("quat", LEVEL_Q[i]) for i in qi]).T
    yaw_q = euler_of(q)[0]

    def f_acro(s):
        w, th = call(F.acro, [trim[None], delta[None], s])
        return np.vstack([w, th - trim])

    def f_level(s):
        qr, th = call(F.level, [trim[None], delta[None], s, q])
        e = euler_of(qr)
        e[0] = np.remainder(e[0] - yaw_q + math.pi, 2 * math.pi) - math.pi
        return np.vstack([e, th - trim])

    def f_velrate(s):
        z = np.zeros((3, 1))
        o = call(F.vel, [np.zeros((1, 1)), yaw_q[None], z, z, s, np.zeros((1, 1))])
        return o[1]

    def f_velvel(s):
        z = np.zeros((3, 1))
        o = call(F.vel, [np.zeros((1, 1)), yaw_q[None], z, z, s, np.zeros((1, 1))])
        return o[3]

    for name, f, alarm in (("input_acro", f_acro, True), ("input_auto_level", f_level, True),
                           ("input_velocity/yaw_rate", f_velrate, True), ("input_velocity/vw_sp", f_velvel, False)):
        z0 = f(np.zeros((4, n)))
        L = lambda s: f(s) - z0
        L1, L2, L12, Ll = L(s1), L(s2), L(s1 + s2), L(lam * s1)
        B = sum(np.abs(L(np.tile(np.eye(4)[:, k:k + 1], (1, n)))) for k in range(4))
        run.count("evaluations", 9 * n)
        sc = np.maximum(1.0, np.max(B, axis=0))
        with np.errstate(invalid="ignore"):
            fin = np.all(np.isfinite(np.vstack([L1, L2, L12, Ll, z0])), axis=0)
            add = np.max(np.abs(L12 - (L1 + L2)), axis=0) <= TOL * sc
            hom = np.max(np.abs(Ll - lam * L1), axis=0) <= TOL * sc
            lim_b = B * (1 + TOL) + 1e-12
            bnd = np.all([np.all(np.abs(Lx) <= lim_b, axis=0) for Lx in (L1, L2, L12, Ll)], axis=0)
            zer = np.max(np.abs(z0[:-1] if name in ("input_acro", "input_auto_level") else z0), axis=0) <= TOL
        for k in range(n):
            if fin[k] and add[k] and hom[k] and bnd[k] and zer[k]:
                continue
            data = ctx.payload(sts[k], {"function": name, "thrust_trim": float(trim[k]), "thrust_delta": float(delta[k]), "q": q[:, k].tolist(),
                                        "L(s1)": L1[:, k].tolist(), "L(s2)": L2[:, k].tolist(), "L(s1+s2)": L12[:, k].tolist(),
                                        "L(lam*s1)": Ll[:, k].tolist(), "full_stick_bound": B[:, k].tolist(), "at_zero_stick": z0[:, k].tolist()})
            for ok, clause, what in ((fin[k], "finite", "non-finite output"), (add[k], "additive", "command is not additive in the stick vector"),
                                     (hom[k], "homogeneous", "command is not homogeneous in the stick vector"),
                                     (bnd[k], "bounded", "command exceeds its value at full stick"),
                                     (zer[k], "zero_stick", "rate/angle command is not zero at zero stick")):
                if not ok:
                    if alarm:
                        run.violation(f"{name}/{clause}", what, data)
                    else:
                        run.spec_drift(f"{name}/{clause}", what + " (velocity command: not part of the property text)")
    ctx.cell("stick", n)


# --------------------------------------------------------------------------------------
# attitude error law (engine A)
# --------------------------------------------------------------------------------------
def rodrigues(r):
    th = np.linalg.norm(r)
    Kx = np.array([[0, -r[2], r[1]], [r[2], 0, -r[0]], [-r[1], r[0], 0]])
    if th < 1e-8:
        return np.eye(3) + Kx + 0.5 * Kx @ Kx
    return np.eye(3) + math.sin(th) / th * Kx + (1 - math.cos(th)) / th ** 2 * Kx @ Kx


def rotvec_of(e):
    """principal rotation vector of the integer quaternion e = (w, v): angle in [0, pi]"""
    w, v = float(e[0]), np.array(e[1:], float)
    if w < 0:
        w, v = -w, -v
    nv = math.sqrt(float(sum(int(c) * int(c) for c in e[1:])))
    if nv == 0:
        return np.zeros(3), 0.0
    th = 2 * math.atan2(nv, w)
    return th * v / nv, th


def rmat(q):
    w, x, y, z = [float(c) for c in q]
    n = w * w + x * x + y * y + z * z
    return np.array([[w*w + x*x - y*y - z*z, 2*(x*y - w*z), 2*(x*z + w*y)],
                     [2*(x*y + w*z), w*w - x*x + y*y - z*z, 2*(y*z - w*x)],
                     [2*(x*z - w*y), 2*(y*z + w*x), w*w - x*x - y*y + z*z]]) / n


def att_eval(ctx, sts):
    run, F = ctx.run, ctx.F
    n = len(sts)
    K = keys_of(ctx.seed, sts)
    Q = np.array([so3_param("quat", s["q"]) for s in sts]).T
    QR = np.array([so3_param("quat", s["qr"]) for s in sts]).T
    rv = np.empty((3, n)); th = np.empty(n)
    for k, s in enumerate(sts):
        rv[:, k], th[k] = rotvec_of(s["e"])
    same = np.array([bool(s["same"]) for s in sts])
    # exactly 180 deg (scalar part of the error quaternion exactly 0) is NOT excluded: the direction of the
    # rotation vector is ambiguous there, but "zero iff same rotation", |command| = pi and X*Exp(command) = X_r
    # (true for either direction) are well defined; only the band around it is ill-conditioned for the value compare
    exact_pi = np.array([int(s["e"][0]) == 0 and not bool(s["same"]) for s in sts])
    excl = ~same & (th > math.pi - NEAR_PI) & ~exact_pi
    cells = []
    for k, s in enumerate(sts):
        c = s["cell"]
        if excl[k] and c not in ("pi", "nearpi"):
            c = "nearpi"
        cells.append(c)
        ctx.cell("att/" + c)
        if not excl[k]:
            ctx.cell("att/signs/q%s,qr%s" % ("-" if s["q"][0] < 0 else "+", "-" if s["qr"][0] < 0 else "+"))
            if c != "wpos":
                ctx.nontrivial += 1
    one = np.ones((3, 1))
    kp = np.vstack([pick(K, 40, [2.0, 0.5, 1.0]), pick(K, 41, [0.25, 3.0]), pick(K, 42, [1.5, 4.0, 0.125])])
    kiso = pick(K, 43, [2.5, 0.5])
    pv = dyad3(K, 13, -4, 4, 8)
    vv = dyad3(K, 14, -2, 2, 8)
    zeta = call(F.se23err, [pv, vv, Q, pv, vv, QR])[0]
    fns = {
        "attitude_control": (call(F.att, [one, Q, QR])[0], call(F.att, [kp, Q, QR])[0], kp),
        "so3_attitude_control": (call(F.so3att, [one, Q, QR])[0], call(F.so3att, [kiso * one, Q, QR])[0], kiso * one),
        "se23_error": (zeta[6:9], None, None),
        "se23_attitude_control": (call(F.se23att, [one, zeta])[0], call(F.se23att, [kiso * one, zeta])[0], kiso * one),
    }
    run.count("evaluations", 8 * n)
    # the same attitudes handed over as quaternions that are not exactly of unit length (an estimator output scaled by
    # 1.03, a reference scaled by 0.9): they denote the same rotations, so the commands must be the same
    sq = pick(K, 44, [1.03, 0.9, 1.0]); sr = pick(K, 45, [0.9, 1.0, 1.03])
    Qs, QRs = Q * sq, QR * sr
    zeta_s = call(F.se23err, [pv, vv, Qs, pv, vv, QRs])[0]
    scaled = {"attitude_control": call(F.att, [one, Qs, QRs])[0], "so3_attitude_control": call(F.so3att, [one, Qs, QRs])[0],
              "se23_error": zeta_s[6:9], "se23_attitude_control": call(F.se23att, [one, zeta_s])[0]}
    with np.errstate(invalid="ignore"):
        pos_ok = np.max(np.abs(zeta[0:6]), axis=0) <= TOL
    for k in np.nonzero(~pos_ok & ~excl & np.all(np.isfinite(zeta), axis=0))[0]:
        run.spec_drift("se23_error/translation_part", "position/velocity part of the SE_2(3) error is not zero at zero position/velocity error")
    RQ = [rmat(s["q"]) for s in sts]
    RR = [rmat(s["qr"]) for s in sts]
    for name, (c1, cg, g) in fns.items():
        fin = np.all(np.isfinite(c1), axis=0) & (True if cg is None else np.all(np.isfinite(cg), axis=0))
        nrm = np.linalg.norm(c1, axis=0)
        with np.errstate(invalid="ignore"):
            val_ok = np.max(np.abs(c1 - rv), axis=0) <= TOL * np.maximum(1.0, np.max(np.abs(rv), axis=0))
            g_ok = np.ones(n, bool) if cg is None else np.max(np.abs(cg - g * c1), axis=0) <= TOL * np.maximum(1.0, np.max(np.abs(g * c1), axis=0))
        for k in range(n):
            if excl[k]:
                continue
            c = cells[k]
            st = sts[k]

            def data():
                return ctx.payload(st, {"function": name, "q": Q[:, k].tolist(), "q_r": QR[:, k].tolist(), "command_unit_gains": c1[:, k].tolist(),
                                        "command_norm": float(nrm[k]), "principal_rotation_vector": rv[:, k].tolist(), "angle": float(th[k])})
            if not fin[k]:
                key = f"{name}/zero_iff_same/{c[5:]}" if same[k] else f"{name}/finite/{c}"
                run.violation(key, "command is not finite", data())
                continue
            if same[k]:
                if not nrm[k] <= TOL:
                    run.violation(f"{name}/zero_iff_same/{c[5:]}", "measured and reference attitude are the same rotation but the command is not zero", data())
                continue
            if nrm[k] <= TOL:
                run.violation(f"{name}/zero_iff_same/{c}", "command is zero although the attitudes differ", data())
                continue
            with np.errstate(invalid="ignore"):
                reach = np.max(np.abs(RQ[k] @ rodrigues(c1[:, k]) - RR[k])) <= TOL
            if not reach:
                run.violation(f"{name}/reach/{c}", "X*Exp(command) is not the reference rotation (unit gains)", data())
            elif exact_pi[k]:
                ctx.cell("att/exact_pi")
                if not abs(nrm[k] - math.pi) <= 1e-9:
                    run.violation(f"{name}/rotvec_norm/exact_pi", "half-turn error: |command| is not pi", data())
            elif not val_ok[k]:
                run.violation(f"{name}/rotvec/{c}", "command is not the principal rotation vector of X^-1 X_r (angle <= pi)", data())
            else:
                run.err(float(np.max(np.abs(c1[:, k] - rv[:, k]))))
            if not g_ok[k]:
                run.violation(f"{name}/gain_scaling/{c}", "command with gains is not the unit-gain command scaled by the gains", data())
            cs_ = scaled[name][:, k]
            if exact_pi[k]:         # half turn: either direction of the rotation vector is right, rounding decides
                ok_s = np.all(np.isfinite(cs_)) and abs(float(np.linalg.norm(cs_)) - math.pi) <= 1e-9
                if not ok_s:
                    run.violation(f"{name}/quaternion_scale/exact_pi", "half-turn error with non-unit quaternions: |command| is not pi", data())
            elif not (np.all(np.isfinite(cs_)) and np.max(np.abs(cs_ - c1[:, k])) <= TOL * max(1.0, float(np.max(np.abs(c1[:, k]))))):
                run.violation(f"{name}/quaternion_scale/{c}", "the command changes when the same attitudes are given as quaternions of length 1.03 / 0.9 "
                              "(same rotations)", ctx.payload(st, {"function": name, "q_scale": float(sq[0, k] if sq.ndim > 1 else sq[k]),
                                                                  "q_r_scale": float(sr[0, k] if sr.ndim > 1 else sr[k]),
                                                                  "command": c1[:, k].tolist(), "command_scaled_inputs": cs_.tolist()}))
    return int(np.sum(excl))


# --------------------------------------------------------------------------------------
# engine B: one behaviour
# --------------------------------------------------------------------------------------
def replay_behaviour(ctx, steps, bid):
    """steps: list of (action, state).  Feeds the code's own outputs back (rdd2_sim.py)."""
    first = steps[0][1]
    m = first["m"]
    mem = None
    ctx.where = {"kind": "behaviour", "steps": [[a, s] for a, s in steps]}
    ncalls = 0
    for t, (act, step) in enumerate(steps):
        st = step
        if t == 0:
            K = keys_of(ctx.seed, [st], 7)
            if m == "rate":
                mem = {"i0": arr([st], "i") * I_U, "e0": np.zeros((3, 1)), "de0": np.zeros((3, 1))}
            elif m == "pos":
                mem = {"z": np.array([st["z"] * I_U])}
            else:
                origin = dyad3(K, 11, -8, 8, 2)
                mem = {"psi": np.array([st["k"] * math.pi / st["N"]]), "sp": arr([st], "sp") / VU + origin, "origin": origin}
            continue
        ctx.act[act] = ctx.act.get(act, 0) + 1
        if act in ("Settle", "Move"):
            continue            # Settle: spec bookkeeping; Move: the vehicle position comes with the next call
        ctx.where["failing_step"] = t
        if act == "RateStep":
            mem = rate_eval(ctx, [st], mem, salt=t)
        elif act == "PosStep":
            mem = pos_eval(ctx, [st], mem, salt=t)
        elif act in ("VelInput", "VelReset", "YawStep"):
            mem = vel_eval(ctx, [st], mem, salt=t)
        else:
            raise MachineryError(f"unknown action {act} in behaviour {bid}")
        ncalls += 1
    ctx.where = None
    return ncalls


# --------------------------------------------------------------------------------------
# long random-input recursions: bounds only
# --------------------------------------------------------------------------------------
def random_recursions(ctx, nruns, nsteps, only=None):
    run, F = ctx.run, ctx.F
    tot = 0
    for r in range(nruns):
        if only is not None and r != only["run"]:
            continue
        rng = np.random.default_rng([ctx.seed, 15, r])
        # rate loop
        lim = np.abs(rng.normal(0, 1, 3)) * rng.choice([0.0, 1.0, 1.0, 100.0], 3)
        kp, ki, kd = rng.uniform(0, 2, 3), rng.uniform(0, 1, 3), rng.uniform(0, 0.5, 3)
        fcut = float(rng.choice([0.1, 10.0, 1000.0]))
        i0 = rng.uniform(-1, 1, 3) * lim
        e0, de0 = np.zeros(3), np.zeros(3)
        # position loop
        zmax_u = [0, 4, 4096][r % 3]
        fpos = F.pos_fn(zmax_u)
        z = 0.0
        # velocity input
        psi, sp, pw = float(rng.uniform(-math.pi, math.pi)), rng.normal(0, 1, 3), rng.normal(0, 1, 3)
        for t in range(nsteps):
            big = rng.random() < 0.05
            dt = float(rng.choice([0.001, 0.004, 0.01, 0.02, 0.1, 1.0]))
            om, omr = rng.normal(0, 3, 3), rng.normal(0, 3 if not big else 1e6, 3)
            M, i1, e1, de1, al = [np.array(x).ravel() for x in F.rate(kp, ki, kd, fcut, lim, om, omr, i0, e0, de0, dt)][:5]
            if not (np.all(np.isfinite(i1)) and np.all(np.abs(i1) <= lim)):
                run.violation("attitude_rate_control/i_bound", "integrator output leaves [-i_max, i_max] (random recursion)",
                              {"kind": "random", "run": r, "step": t, "i_max": lim.tolist(), "i0": i0.tolist(), "i1": i1.tolist(),
                               "omega": om.tolist(), "omega_r": omr.tolist(), "dt": dt})
            if not (0 < al[0] < 1):
                run.violation("attitude_rate_control/alpha_range", "alpha not strictly inside (0,1) (random recursion)",
                              {"kind": "random", "run": r, "step": t, "dt": dt, "f_cut": fcut, "alpha": float(al[0])})
            i0, e0, de0 = i1, e1, de1
            # position loop, fed like rdd2_sim: set-point / vehicle random
            pt, vt = rng.normal(0, 2 if not big else 1e3, 3), rng.normal(0, 1, 3)
            at = rng.normal(0, 1 if not big else 50, 3)
            p, v = rng.normal(0, 2, 3), rng.normal(0, 1, 3)
            yaw = float(rng.uniform(-3, 3))
            qc = np.array([math.cos(yaw / 2), 0, 0, math.sin(yaw / 2)])
            nT, qr, z2 = fpos(F.m * F.g, pt, vt, at, qc, p, v, z, dt)[:3]
            nT0 = float(fpos(0.0, pt, vt, at, qc, p, v, 0.0, dt)[0])
            z2 = float(z2)
            if not (math.isfinite(z2) and abs(z2) <= zmax_u * I_U):
                run.violation("position_control/z_bound", "height integrator leaves its limit (random recursion)",
                              {"kind": "random", "run": r, "step": t, "z_integral_max": zmax_u * I_U, "z_i": z, "z_i_2": z2})
            if not (nT0 <= F.pmax * (1 + TOL)):
                run.violation("position_control/p_bound/random", "feedback term exceeds 0.3 m g (random recursion)",
                              {"kind": "random", "run": r, "step": t, "nT_zero_trim": nT0, "p_norm_max": F.pmax})
            z = z2
            # velocity input with vehicle motion and resets
            stick = rng.uniform(-1, 1, 4)
            if rng.random() < 0.2:
                stick = np.sign(stick)
            reset = 1.0 if rng.random() < 0.05 else 0.0
            pw = pw + rng.normal(0, 0.05 if not big else 10.0, 3)
            o = F.vel(dt, psi, sp, pw, stick, reset)
            psi1, sp1 = float(o[0]), np.array(o[2]).ravel()
            dist = float(np.linalg.norm(sp1 - pw))
            dd = {"kind": "random", "run": r, "step": t, "args": {"dt": dt, "psi_sp": psi, "pw_sp": sp.tolist(), "pw": pw.tolist(),
                                                                   "input_aetr": stick.tolist(), "reset_position": reset},
                  "psi_sp1": psi1, "pw_sp1": sp1.tolist(), "distance": dist}
            if not (abs(psi1) <= math.pi + 1e-12):
                run.violation("input_velocity/yaw_range", "yaw set-point leaves [-pi, pi] (random recursion)", dd)
            if not (dist <= LEASH * (1 + TOL)):
                run.violation("input_velocity/leash/random", "position set-point farther than 2 m from the vehicle (random recursion)", dd)
            if reset and not np.max(np.abs(sp1 - pw)) <= TOL:
                run.violation("input_velocity/reset", "reset does not put the set-point on the vehicle (random recursion)", dd)
            psi, sp = psi1, sp1
            tot += 3
    run.count("evaluations", tot * 4 // 3)
    return tot


# --------------------------------------------------------------------------------------
# dispatch of dumped vectors
# --------------------------------------------------------------------------------------
def replay_vectors(ctx, sts):
    """sts: list of step/vector states (any mixture)"""
    grp = {}
    for s in sts:
        op = s["op"]
        key = "vel" if op in ("VelInput", "VelReset") else ("RateStep" if op == "RateAny" else ("PosStep" if op == "PosAny" else op))
        grp.setdefault(key, []).append(s)
    out = {"excluded_att": 0}
    if "RateStep" in grp:
        rate_eval(ctx, grp["RateStep"])
    if "PosStep" in grp:
        pos_eval(ctx, grp["PosStep"])
    if "psat" in grp:
        pos_eval(ctx, grp["psat"], recursion=False)
    if "vel" in grp:
        vel_eval(ctx, grp["vel"])
    if "alpha" in grp:
        alpha_eval(ctx, grp["alpha"])
    if "stick" in grp:
        stick_eval(ctx, grp["stick"])
    if "att" in grp:
        out["excluded_att"] = att_eval(ctx, grp["att"])
    return {k: len(v) for k, v in grp.items()}, out


TIERS = {
    "quick":    {"sim_num": 40, "sim_depth": 30, "rand_runs": 3, "rand_steps": 2000},
    "thorough": {"sim_num": 125, "sim_depth": 60, "rand_runs": 9, "rand_steps": 5000},
}


def main():
    tier = sys.argv[1] if len(sys.argv) > 1 else "quick"
    run = Run(PID, tier)
    from harness.lie import touch_all as _touch_all
    _touch_all()        # first uses of the Lie API happen BEFORE the models are derived (see harness/lie.py)
    from harness import history as _history      # derivation histories in fresh interpreters (spec/DeriveHistory.tla)
    _history.run_models(run, tier, ("rdd2:attitude", "rdd2:input_", "rdd2:position_control", "rdd2_loglinear:"))
    P = TIERS[tier]
    F = Fns(zmaxes=(0, 4))
    ctx = Ctx(run, F)
    if "--replay" in sys.argv:
        d = json.load(open(sys.argv[sys.argv.index("--replay") + 1]))["data"]
        if d["kind"] == "vector":
            replay_vectors(ctx, [d["st"]])
        elif d["kind"] == "behaviour":
            replay_behaviour(ctx, [(a, s) for a, s in d["steps"]], "replay")
        else:
            random_recursions(ctx, d["run"] + 1, max(P["rand_steps"], d["step"] + 1), only=d)
        return run.finish()

    # ---- TLC: model-check the spec, dump the graph
    res = run_tlc("Controllers.tla", f"Controllers_{tier}.cfg", workdir=run.workdir, dump=True)
    run.add_tlc("Controllers", res)
    vec, nmem = [], 0
    for st in parse_dump(res["dump"]):
        s = st["st"]
        if s["op"] in ("mem", "seed"):
            nmem += 1
            continue
        vec.append(s)
    os.remove(res["dump"])
    counts, extra = replay_vectors(ctx, vec)
    for i in range(0, len(vec), max(1, len(vec) // 5)):
        s = vec[i]
        run.sample({k: s[k] for k in s if k in ("m", "op", "in", "pre", "i", "z", "k", "sp", "pw", "q", "qr", "e", "cell", "P")}, limit=6)
    nvec = len(vec)
    del vec

    # ---- TLC -simulate: behaviours, replayed with the code's memory fed back
    simdir = os.path.join(run.workdir, "sim")
    os.makedirs(simdir, exist_ok=True)
    sres = run_tlc("Controllers.tla", f"Controllers_sim_{tier}.cfg", workdir=run.workdir,
                   simulate=f"file={simdir}/b,num={P['sim_num']}", depth=P["sim_depth"], seed=run.seed)
    import re
    mg = re.search(r"The number of states generated: (\d+)", sres["out"])
    sres["states"] = int(mg.group(1)) if mg else 0
    sres["distinct"] = 0
    run.add_tlc("Controllers -simulate", sres)
    nbeh, ncalls, per_m = 0, 0, {}
    for path in sorted(glob.glob(simdir + "/b_*")):
        steps = [(a, s["st"]) for a, s in parse_sim_file(path)]
        if len(steps) < 2:
            continue
        ncalls += replay_behaviour(ctx, steps, os.path.basename(path))
        per_m[steps[0][1]["m"]] = per_m.get(steps[0][1]["m"], 0) + 1
        nbeh += 1

    # ---- long random recursions (bounds only)
    nrand = random_recursions(ctx, P["rand_runs"], P["rand_steps"])

    # ---- vacuity
    need_act = {"RateStep", "PosStep", "VelInput", "VelReset", "Move", "YawStep", "Settle"}
    if not need_act <= set(ctx.act):
        raise MachineryError(f"vacuous coverage: actions never taken in the replayed behaviours: {need_act - set(ctx.act)}")
    need_cells = {"att/same/qr=+q", "att/same/qr=-q", "att/wneg", "att/wpos", "att/signs/q+,qr+", "att/signs/q+,qr-",
                  "att/signs/q-,qr+", "att/signs/q-,qr-", "leash/zero", "leash/inside", "leash/boundary", "leash/outside",
                  "pterm/inside", "pterm/boundary", "pterm/outside", "pterm/zero", "rate/clamped", "rate/free",
                  "yaw/wrapped", "yaw/plain", "reset/moved", "alpha", "stick"}
    if not need_cells <= set(ctx.cells):
        raise MachineryError(f"vacuous coverage: cells never exercised: {sorted(need_cells - set(ctx.cells))}")
    if not any(c.startswith("yaw/tie") for c in ctx.cells):
        raise MachineryError("vacuous coverage: the yaw tie at +-pi was never exercised")
    for need in ("RateStep", "PosStep", "vel", "psat", "alpha", "stick", "att"):
        if not counts.get(need):
            raise MachineryError(f"vacuous coverage: no '{need}' vectors in the state graph")
    run.assumptions += [
        "lattice: dyadic rate errors/time steps/limits; Pythagorean PD terms and set-point errors (exact radial projections); yaw in units of pi/N; "
        "signed integer quaternion pairs; validity between lattice points is not decided (long random recursions check the bounds only)",
        "velocity-mode sticks are solved from the spec's world displacement through the stick map calibrated on the code (gain not fixed by the spec)",
        "height integrator limit z_integral_max is a module constant (shipped 0): functions are derived with the constant as shipped and with 4/2048 "
        "(and 2 in random recursions) by setting cyecca.models.rdd2.z_integral_max before derive_position_control()",
        f"attitude law: error rotations within {NEAR_PI} rad of 180 deg excluded ({extra['excluded_att']} pairs); SE_2(3) functions at zero position/velocity error",
        "exact expected values the property text does not promise (integrator value, congruent yaw, leashed point, direction of the saturated PD term, alpha enclosure) "
        "are compared but reported as SPEC-DRIFT only",
    ]
    return run.finish({
        "traces_validated_against_impl": nbeh + nvec,
        "behaviours_replayed": nbeh, "behaviours_by_machine": per_m, "behaviour_controller_calls": ncalls,
        "actions_in_behaviours": ctx.act,
        "vectors_replayed": nvec, "vectors_by_kind": counts,
        "random_recursion_calls_bounds_only": nrand,
        "random_recursions": f"{P['rand_runs']} runs x {P['rand_steps']} steps x 3 controllers, random inputs seeded by VERIF_SEED; ONLY the bounds are checked there",
        "evaluations": run.counts.get("evaluations", 0),
        "distinct_nontrivial": ctx.nontrivial,
        "rule": "one TLC step state = one controller call (pre-memory, inputs, exact post-memory); one vector state = one pure call; one behaviour = one "
                "-simulate trace replayed with the code's own outputs fed back. non-trivial = a clamp/saturation/leash/wrap/tie/reset is active, or the "
                "attitude error has negative scalar part / is a same-rotation pair",
        "cells": dict(sorted(ctx.cells.items())),
        "excluded_near_180deg": extra["excluded_att"],
        "exhaustive": True,
    })


if __name__ == "__main__":
    main_wrap(main)
