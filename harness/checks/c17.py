"""C17 -- the shipped control cascade stabilises the shipped quadrotor model.

1. TLC model-checks the abstract closed loop of spec/Cascade.tla (Cascade_mc.cfg: the
   time-guarded envelope invariants give the temporal reading "once settled, stays settled").
2. TLC enumerates the launch configurations (Cascade_ic_<tier>.cfg, -dump): spec -> code.
   Alarming domain = what the property lists (offsets, attitudes within 60 deg, velocities,
   rates, both modes) at the simulator's own heading command psi_sp = 0; one extra launch per
   seed with a commanded heading /= 0 is run and validated too, but a rejection there is only
   reported (SPEC-DRIFT cascade/<mode>/<clause>/heading=<deg>, coverage.beyond_property).
3. harness/cascade.py runs the real closed loop (plant f + shipped controllers + allocator,
   gains extracted from scripts/rdd2_sim.py) for 30 s from every configuration and writes
   one integer-coded NDJSON line per control period.
4. TLC validates every recorded history against spec/CascadeTrace.tla (engine C): first with
   every clause of the envelope as a separate INVARIANT (Strict); shards TLC rejects are
   re-validated in report mode, which prints one REJECT tid line clause per rejected run.
5. Self-test of the trace validation on corrupted copies of a real run (MachineryError if a
   corruption is not rejected with the right clause and line).
"""
import json
import os
import re
import subprocess
import sys
import time
from concurrent.futures import ThreadPoolExecutor

from harness.core import Run, run_tlc, parse_dump, main_wrap, MachineryError, SPEC, JAR
from harness import cascade

PID = "C17"
TLC_PAR = 8                       # single-worker TLC instances side by side
SIM_PAR = {"quick": 4, "thorough": 12}
RUNS_PER_FILE = {"quick": 3, "thorough": 22}

PROPERTY_CLAUSES = {"nan", "ground_contact", "motor_limit", "rate_integrator", "z_integrator", "attitude_settle", "yaw_settle",
                    "rate_settle", "position_settle"}
MACHINERY_CLAUSES = {"type", "clock", "launch", "trace_incomplete", "not_started"}
INV2CLAUSE = {"TypeOK": "type", "ClockOK": "clock", "LaunchOK": "launch", "NoNan": "nan", "Airborne": "ground_contact", "MotorLimit": "motor_limit",
              "RateIntegratorBound": "rate_integrator", "ZIntegratorBound": "z_integrator",
              "AttitudeSettled": "attitude_settle", "YawSettled": "yaw_settle", "RateSettled": "rate_settle",
              "PositionSettled": "position_settle", "StaysSettled": "position_settle",
              "StaysAttSettled": "attitude_settle|rate_settle"}
WHAT = {"nan": "a plant state or controller signal became non-finite",
        "ground_contact": "the vehicle, launched at least 7 m above the model's ground plane, fell to the ground (z <= 0) instead of converging",
        "motor_limit": "a motor command left [0, sqrt(F_max/C_T)]",
        "rate_integrator": "the rate-loop integrator left [-i_max, i_max]",
        "z_integrator": "the z integrator left [-z_integral_max, z_integral_max]",
        "attitude_settle": "tilt above 0.05 rad at t >= 10 s",
        "yaw_settle": "heading error above 0.05 rad at t >= 10 s",
        "rate_settle": "body-rate norm above 0.1 rad/s at t >= 10 s",
        "position_settle": "position error to the commanded hover set-point above 0.05 m at t >= 25 s"}


# ------------------------------------------------------------------------------------------
# TLC on a trace file
# ------------------------------------------------------------------------------------------
_re_rej = re.compile(r'<<"REJECT", (\d+), (-?\d+), "(\w+)">>')
_re_tr = re.compile(r'<<"TRACES", (\d+), "LINES", (\d+), "REJECTED", (\d+)>>')
_re_states = re.compile(r"(\d+) states generated, (\d+) distinct states found")
_re_inv = re.compile(r"Error: Invariant (\w+) is violated|Error: Action property (\w+) is violated")


def tlc_trace(path, cfg, workdir, tag):
    meta = os.path.join(workdir, f"meta_{tag}")
    os.makedirs(meta, exist_ok=True)
    cmd = ["java", "-XX:+UseSerialGC", "-Xmx3g", "-Xss64m", "-cp", JAR, "tlc2.TLC", "-workers", "1", "-metadir", meta,
           "-noGenerateSpecTE", "-config", os.path.join(SPEC, cfg), os.path.join(SPEC, "CascadeTrace.tla")]
    env = dict(os.environ)
    env["C17_TRACE"] = path
    t0 = time.time()
    try:
        p = subprocess.run(cmd, capture_output=True, text=True, timeout=3000, env=env, cwd=SPEC)
    except subprocess.TimeoutExpired as ex:
        raise MachineryError(f"TLC timeout on trace file {path}") from ex
    out = p.stdout + p.stderr
    res = {"out": out, "wall_s": time.time() - t0, "rc": p.returncode, "path": path, "cfg": cfg}
    m = None
    for m in _re_states.finditer(out):
        pass
    res["states"], res["distinct"] = (int(m.group(1)), int(m.group(2))) if m else (0, 0)
    res["completed"] = "Model checking completed. No error has been found." in out
    mt = _re_tr.search(out)
    res["traces"], res["lines"], res["n_rejected"] = (int(mt.group(1)), int(mt.group(2)), int(mt.group(3))) if mt else (None, None, None)
    res["rejects"] = [(int(a), int(b), c) for a, b, c in _re_rej.findall(out)]
    res["named"] = None
    mi = _re_inv.search(out)
    if mi:
        # state TLC stopped in: last "tid = " / "k |-> " of the printed behaviour
        beh = out[mi.start():]
        end = beh.find('<<"TRACES"')
        beh = beh[:end] if end >= 0 else beh
        tids = re.findall(r"/\\ tid = (\d+)", beh)
        ks = re.findall(r"obs = \[ ?k \|-> (-?\d+)", beh)
        if not tids or not ks:
            raise MachineryError("cannot parse the state of TLC's invariant violation:\n" + beh[:2000])
        res["named"] = {"invariant": mi.group(1) or mi.group(2), "tid": int(tids[-1]), "k": int(ks[-1])}
    hard = re.search(r"Error: (?!Invariant|Action property|Postcondition|The behavior)(.*)", out)
    if hard or (not res["completed"] and not res["named"] and mt is None):
        tail = "\n".join(out.splitlines()[-40:])
        raise MachineryError(f"TLC failed on {cfg} / {path} (rc={p.returncode}):\n{tail}")
    return res


def validate_files(run, files, workdir, label):
    """Strict first; report mode for the files TLC rejected.  Returns (accepted_tids, rejects, stats)
    rejects: list of (tid, k, clause, path)"""
    t0 = time.time()
    with ThreadPoolExecutor(TLC_PAR) as ex:
        strict = list(ex.map(lambda a: tlc_trace(a[1], "CascadeTrace_strict.cfg", workdir, f"{label}_s{a[0]}"),
                             enumerate(files)))
    bad = [r for r in strict if not (r["completed"] and r["n_rejected"] == 0)]
    with ThreadPoolExecutor(TLC_PAR) as ex:
        report = list(ex.map(lambda a: tlc_trace(a[1]["path"], "CascadeTrace_report.cfg", workdir, f"{label}_r{a[0]}"),
                             enumerate(bad)))
    rejects = []
    for s, r in zip(bad, report):
        if r["traces"] is None:
            raise MachineryError("report-mode TLC run printed no TRACES line:\n" + r["out"][-2000:])
        if r["n_rejected"] == 0 or len(r["rejects"]) != r["n_rejected"]:
            raise MachineryError(f"strict TLC run rejected {s['path']} but the report run lists {r['rejects']}")
        if s["named"]:           # double entry: the clause TLC named must be the one the report run printed
            nm = s["named"]
            hit = [x for x in r["rejects"] if x[0] == nm["tid"]]
            want = INV2CLAUSE.get(nm["invariant"], "?").split("|")
            if not hit or hit[0][2] not in want or hit[0][1] != nm["k"]:
                raise MachineryError(f"verdict cross-check failed: TLC named {nm}, report mode printed {hit}")
            run.count("strict_named_" + nm["invariant"])
        rejects += [(t, k, c, r["path"]) for t, k, c in r["rejects"]]
    n_tr = sum(r["traces"] or 0 for r in strict if r["completed"]) + sum(r["traces"] for r in report)
    n_ln = sum(r["lines"] or 0 for r in strict if r["completed"]) + sum(r["lines"] for r in report)
    states = sum(r["states"] for r in strict + report)
    distinct = sum(r["distinct"] for r in strict + report)
    tlc_cpu = sum(r["wall_s"] for r in strict + report)
    stats = {"name": f"CascadeTrace[{label}]", "states": states, "distinct": distinct, "depth": 0,
             "wall_s": time.time() - t0, "files": len(files), "files_rejected": len(bad), "traces": n_tr, "lines": n_ln,
             "lines_per_s_per_tlc": round(sum((r["lines"] or 0) for r in strict if r["completed"]) /
                                          max(1e-9, sum(r["wall_s"] for r in strict if r["completed"])), 1),
             "tlc_wall_sum_s": round(tlc_cpu, 1)}
    return rejects, stats


# ------------------------------------------------------------------------------------------
def read_line(path, tid, k):
    with open(path) as f:
        for ln in f:
            if ln.startswith('{"tid":%d,"k":%d,' % (tid, k)):
                return json.loads(ln)
    return None


def selftest(run, src_file, workdir):
    """corrupt one real, accepted history and require the trace validation to reject it (right
    clause, right line); an untouched copy must be accepted."""
    first = None
    base = []
    with open(src_file) as f:
        for ln in f:
            r = json.loads(ln)
            if first is None:
                first = r["tid"]
            if r["tid"] != first:
                break
            base.append(r)
    n = len(base)
    lim = base[0]["lim"]

    def variant(tid, fn):
        out = []
        for r in base:
            r2 = json.loads(json.dumps(r))
            r2["tid"] = tid
            r2 = fn(r2)
            if r2 is not None:
                out.append(r2)
        return out

    def setf(k, **kw):
        def fn(r):
            if r["k"] == k:
                for a, v in kw.items():
                    if a == "m2":
                        r["m"][2] = v
                    elif a == "ri0":
                        r["ri"][0] = v
                    else:
                        r[a] = v
            return r
        return fn
    cases = [
        (1, "ok", None, lambda r: r),
        (2, "motor_limit", 1500, setf(1500, m2=lim + 1)),
        (3, "motor_limit", 700, setf(700, m2=-1)),
        (4, "position_settle", 2800, setf(2800, e=80, ex=80)),
        (5, "attitude_settle", 1200, setf(1200, tilt=60)),
        (6, "rate_settle", 2999, setf(2999, rate=101)),
        (7, "nan", 10, setf(10, nan=1)),
        (12, "ground_contact", 333, setf(333, alt=0)),
        (8, "rate_integrator", 55, setf(55, ri0=base[0]["imax"][0] + 1)),
        (9, "trace_incomplete", 100, lambda r: None if r["k"] == 100 else r),               # a dropped line
        (10, "trace_incomplete", n - 10, lambda r: None if r["k"] >= n - 10 else r),        # a truncated run
        (11, "launch", 0, setf(0, ex=base[0]["ex"] + 1000)),                               # not the launch configuration
    ]
    path = os.path.join(workdir, "selftest.ndjson")
    with open(path, "w") as f:
        for tid, _, _, fn in cases:
            for r in variant(tid, fn):
                f.write(json.dumps(r, separators=(",", ":")) + "\n")
    one = os.path.join(workdir, "selftest_one.ndjson")
    with open(one, "w") as f:
        for r in variant(1, cases[3][3]):
            f.write(json.dumps(r, separators=(",", ":")) + "\n")
    with ThreadPoolExecutor(2) as ex:
        fr = ex.submit(tlc_trace, path, "CascadeTrace_report.cfg", workdir, "selftest_r")
        fs = ex.submit(tlc_trace, one, "CascadeTrace_strict.cfg", workdir, "selftest_s")
        rep, strict = fr.result(), fs.result()
    got = {t: (k, c) for t, k, c in rep["rejects"]}
    want = {tid: (k, c) for tid, c, k, _ in cases if c != "ok"}
    if rep["traces"] != len(cases) or got != want:
        raise MachineryError(f"selftest: corrupted traces not rejected as expected: got {got}, want {want}")
    nm = strict["named"]
    if not nm or nm["invariant"] != "PositionSettled" or nm["k"] != 2800 or nm["tid"] != 1:
        raise MachineryError(f"selftest: strict TLC run did not name PositionSettled at line 2800: {nm}")
    run.add_tlc("CascadeTrace[selftest]", {"states": rep["states"] + strict["states"], "distinct": rep["distinct"] + strict["distinct"],
                                           "depth": 0, "wall_s": max(rep["wall_s"], strict["wall_s"])})
    return {"cases": len(cases), "rejected_as_expected": len(want), "accepted_copy": 1,
            "strict_named": nm["invariant"], "clauses": sorted({c for _, c, _, _ in cases if c != "ok"})}


# ------------------------------------------------------------------------------------------
def enumerate_ics(run, tier):
    res = run_tlc("Cascade.tla", f"Cascade_ic_{tier}.cfg", workdir=run.workdir, dump=True, workers=4)
    run.add_tlc("Cascade[launch lattice]", res)
    ics = []
    for st in parse_dump(res["dump"]):
        c = st["ic"]
        if c.get("kind") == "ic":
            ics.append({"mode": c["mode"], "q": list(c["q"]), "yaw": list(c["yaw"]), "q0": list(c["q0"]),
                        "off": list(c["off"]), "vel": list(c["vel"]), "rate": list(c["rate"]), "spi": int(c["spi"])})
    ics.sort(key=lambda c: (heading_deg(c) != 0, c["mode"], c["q"], c["yaw"], c["off"], c["vel"], c["rate"]))
    dom = [c for c in ics if heading_deg(c) == 0]        # the domain the property lists (alarming)
    bey = [c for c in ics if heading_deg(c) != 0]        # commanded heading /= 0 (reported only)

    # vacuity guards on the launch set
    def has(pred, S=dom):
        return any(pred(c) for c in S)
    need = {
        "both modes": all(has(lambda c, m=m: c["mode"] == m) for m in cascade.MODES),
        "negative scalar part": has(lambda c: c["q"][0] < 0),
        "exactly 60 deg": has(lambda c: c["q"][0] ** 2 == 3 * sum(v * v for v in c["q"][1:])),
        "identity attitude": has(lambda c: c["q"][1:] == [0, 0, 0]),
        "3 m offsets": has(lambda c: max(abs(v) for v in c["off"]) == 3),
        "both hover positions in both modes": all(any(c["spi"] == k and c["mode"] == m for c in ics) for k in (0, 1) for m in cascade.MODES),
        "non-zero velocity and rate": has(lambda c: any(c["vel"]) and any(c["rate"])),
        "commanded heading >= 90 deg in both modes (beyond-property runs)": all(
            has(lambda c, m=m: c["mode"] == m and abs(heading_deg(c)) >= 90, bey) for m in cascade.MODES),
    }
    miss = [k for k, v in need.items() if not v]
    if miss or len(dom) < 8:
        raise MachineryError(f"vacuous launch lattice ({len(dom)} configurations at heading 0), missing: {miss}")
    return dom, bey


def simulate(run, groups, tier, workdir):
    """groups: lists of launch configurations; a trace file never mixes groups.  tids are global."""
    per = RUNS_PER_FILE[tier]
    shards = []
    tid = 0
    for g, ics in enumerate(groups):
        for j in range(0, len(ics), per):
            part = ics[j:j + per]
            shards.append((os.path.join(workdir, f"traces_g{g}_{j // per:03d}.ndjson"),
                           [(tid + i + 1, ic) for i, ic in enumerate(part)]))
            tid += len(part)
    t0 = time.time()
    res = cascade.run_shards(shards, SIM_PAR[tier])
    summ = {}
    for path, ss in res:
        for s in ss:
            s["file"] = path
            summ[s["tid"]] = s
    return [p for p, _ in shards], summ, time.time() - t0


def heading_deg(ic):
    import math
    d = round(math.degrees(2.0 * math.atan2(ic["yaw"][3], ic["yaw"][0])))
    return ((d + 179) % 360) - 179          # (-180, 180]


def vkey(ic, clause):
    """heading command 0 = the script's own initial psi_sp (the property's literal domain); other commanded
    headings are a separate cell of the key so that a finding there never masks one at heading 0"""
    h = heading_deg(ic)
    return f"cascade/{ic['mode']}/{clause}" + ("" if h == 0 else f"/heading={h}")


def verdicts(run, rejects, summ):
    for tid, k, clause, path in rejects:
        s = summ.get(tid)
        if clause in MACHINERY_CLAUSES or s is None or clause not in PROPERTY_CLAUSES:
            raise MachineryError(f"trace {tid} rejected for a structural reason ({clause} at line {k}) -- harness defect")
        ic = s["ic"]
        ln = read_line(path, tid, k)
        if heading_deg(ic) != 0:
            # the property does not list the commanded heading: informational, never an alarm
            run.spec_drift(vkey(ic, clause), "commanded heading /= 0 (outside the property's listed domain): " + WHAT[clause])
            continue
        run.violation(vkey(ic, clause), WHAT[clause],
                      {"ic": ic, "line": k, "t_ms": ln["t"] if ln else None, "logged": ln,
                       "summary": {a: b for a, b in s.items() if a not in ("ic", "file")}})


def fmt(s):
    return {"ic": s["ic"], "final_err_m": round(s["final_err_m"], 6), "final_tilt_rad": round(s["final_tilt_rad"], 6),
            "final_rate_rad_s": round(s["final_rate_rad_s"], 6), "set_point_shift_m": round(s["sp_shift_m"], 3)}


def main():
    tier = sys.argv[1] if len(sys.argv) > 1 and not sys.argv[1].startswith("--") else "quick"
    run = Run(PID, tier)
    try:
        return body(run, tier)
    finally:                      # also on MachineryError: leave nothing under /tmp
        import shutil
        shutil.rmtree(run.workdir, ignore_errors=True)


def body(run, tier):
    workdir = run.workdir
    loop = cascade.get_loop()         # builds the functions + extracts the constants (MachineryError if not found)
    consts = cascade.constants_summary(loop.C)
    if getattr(loop, "script_drift", None):
        run.spec_drift("rdd2_sim.py/structure", "scripts/rdd2_sim.py is no longer readable by the static reader (" + loop.script_drift[:200] +
                       "): the loop is closed with the gains and wiring pinned from the reference tree (harness/cascade_pinned.json)")

    if "--replay" in sys.argv:
        d = json.load(open(sys.argv[sys.argv.index("--replay") + 1]))
        ic = d["data"]["ic"] if "data" in d else d["ic"]
        ic = {k: (list(v) if isinstance(v, (list, tuple)) else v) for k, v in ic.items() if k in ("mode", "q", "yaw", "q0", "off", "vel", "rate")}
        ic.setdefault("yaw", [1, 0, 0, 0])
        ic.setdefault("q0", ic["q"])
        ic.setdefault("spi", 0)
        files, summ, _ = simulate(run, [[ic]], "quick", workdir)
        rejects, st = validate_files(run, files, workdir, "replay")
        run.tlc.append(st)
        verdicts(run, rejects, summ)
        print("replay:", json.dumps({k: v for k, v in summ[1].items() if k != "file"}, default=str))
        return run.finish({"traces_validated_against_impl": 1, "events_validated": st["lines"], "samples": [fmt(summ[1])]})

    if "--selftest" in sys.argv:
        ic = {"mode": "mellinger", "q": [3, 1, 1, 1], "yaw": [1, 0, 0, 1], "q0": [2, 0, 2, 4], "off": [3, -1, 0], "vel": [1, 0, -1], "rate": [0, 1, 1]}
        files, summ, _ = simulate(run, [[ic]], "quick", workdir)
        st = selftest(run, files[0], workdir)
        print("selftest:", json.dumps(st))
        return run.finish({"traces_validated_against_impl": 0, "selftest": st})

    # 1. design-level model checking of the abstract closed loop
    res = run_tlc("Cascade.tla", "Cascade_mc.cfg", workdir=workdir, workers=2)
    run.add_tlc("Cascade[abstract, coarse clock]", res)
    # 2. launch configurations from TLC
    dom, bey = enumerate_ics(run, tier)
    ics = dom + bey
    # 3. closed loops
    files, summ, sim_wall = simulate(run, [dom, bey], tier, workdir)
    if len(summ) != len(ics):
        raise MachineryError("not every launch configuration produced a history")
    # 4. trace validation
    rejects, st = validate_files(run, files, workdir, tier)
    run.tlc.append(st)
    if st["traces"] != len(ics):
        raise MachineryError(f"TLC saw {st['traces']} histories, {len(ics)} were recorded")
    verdicts(run, rejects, summ)
    # 5. selftest on a real history (of a file TLC accepted)
    rej_files = {p for _, _, _, p in rejects}
    okf = [f for f in files if f not in rej_files]
    if okf:
        stest = selftest(run, okf[0], workdir)
    else:       # nothing to corrupt: every file holds a rejected history (the verdict is a violation anyway)
        stest = {"skipped": "every trace file contained a rejected history"}

    rej_tids = {t: (k, c) for t, k, c, _ in rejects}
    S = [s for s in summ.values() if heading_deg(s["ic"]) == 0]
    B = [s for s in summ.values() if heading_deg(s["ic"]) != 0]
    worst = lambda key, X=S: max(X, key=lambda s: s[key])[key]
    seen = set()
    for s in sorted(S, key=lambda s: -s["final_err_m"])[:2] + sorted(S, key=lambda s: s["tid"])[:: max(1, len(S) // 4)]:
        if s["tid"] not in seen:
            seen.add(s["tid"])
            run.sample(fmt(s))
    run.assumptions += [
        "monitoring, not prediction: the envelope is checked on the recorded histories of the launch lattice; nothing is "
        "claimed between lattice points or beyond 30 s",
        "plant integrated with classical RK4, 10 sub-steps of 1 ms per 10 ms control period, u held (the script uses cvodes)",
        "true state fed back (use_estimator = False as in the script), no sensor noise, no stick input, input_mode 'velocity'",
        "position error is measured to the CURRENT commanded set-point pw_sp: input_velocity drags the set-point to within "
        "2 m of the vehicle, so launches further away settle at a displaced hover point (logged as sp)",
        "two commanded hover positions (Cascade!HoverPositions: (0,0,10) and (30,-20,25) m), both >= 10 m above the model's ground "
        "plane; 'ground_contact' (z <= 0 at any time) counts as not converging; mr_ref_traj (result discarded by the script) not called",
        "envelope constants 10 s / 25 s / 0.05 rad / 0.1 rad/s / 0.05 m from the property's wording (DESIGN.md C17)",
        "alarming domain: commanded heading psi_sp = 0 (the script's initial value), launch attitude within 60 deg of level "
        "(yaw component included); launches with a commanded heading /= 0 are run and validated too but only reported "
        "(SPEC-DRIFT keys .../heading=<deg>, coverage.beyond_property): the property does not list the commanded heading",
    ]

    def group_stats(X):
        if not X:
            return {}
        acc = [s for s in X if s["tid"] not in rej_tids]
        out = {"runs": len(X), "rejected": len(X) - len(acc),
               "worst_position_error_from_25s_m": worst("err_from_25s_m", X),
               "worst_tilt_from_10s_rad": worst("tilt_from_10s_rad", X),
               "worst_rate_from_10s_rad_s": worst("rate_from_10s_rad_s", X),
               "worst_yaw_error_from_10s_rad": worst("yaw_from_10s_rad", X),
               "max_set_point_shift_m": worst("sp_shift_m", X)}
        if acc:
            out["accepted_worst_position_error_from_25s_m"] = worst("err_from_25s_m", acc)
            out["accepted_worst_tilt_from_10s_rad"] = worst("tilt_from_10s_rad", acc)
        return out
    by_h = {}
    for s in B:
        key = f"{s['ic']['mode']}/heading={heading_deg(s['ic'])}"
        by_h.setdefault(key, []).append(s)
    beyond = {"heading_runs": {k: group_stats(v) for k, v in sorted(by_h.items())},
              "total": group_stats(B),
              "rejected_examples": [dict(fmt(s), clause=rej_tids[s["tid"]][1], line=rej_tids[s["tid"]][0])
                                    for s in B if s["tid"] in rej_tids][:6]}
    acc = len(S) - sum(1 for s in S if s["tid"] in rej_tids)
    return run.finish({
        "traces_validated_against_impl": len(ics),
        "histories_in_property_domain": len(S),
        "histories_accepted_in_property_domain": acc,
        "events_validated": st["lines"],
        "rule": "one closed-loop history (3001 control periods) per TLC-generated launch configuration; every envelope clause "
                "is a TLC invariant evaluated at every line",
        "runs_per_mode": {m: sum(1 for s in S if s["ic"]["mode"] == m) for m in cascade.MODES},
        "worst_final_position_error_m": worst("final_err_m"),
        "worst_final_tilt_rad": worst("final_tilt_rad"),
        "worst_final_rate_rad_s": worst("final_rate_rad_s"),
        "worst_position_error_from_25s_m": worst("err_from_25s_m"),
        "worst_tilt_from_10s_rad": worst("tilt_from_10s_rad"),
        "worst_yaw_error_from_10s_rad": worst("yaw_from_10s_rad"),
        "worst_rate_from_10s_rad_s": worst("rate_from_10s_rad_s"),
        "max_motor_command_over_limit": worst("max_cmd_over_lim"),
        "runs_reaching_motor_limit": sum(1 for s in S if s["max_cmd_over_lim"] >= 1.0),
        "max_set_point_shift_m": worst("sp_shift_m"),
        "min_altitude_m": min(s["min_z_m"] for s in S),
        "beyond_property": beyond,
        "constants_from_rdd2_sim": consts,
        "integration": {"scheme": "RK4", "substeps_per_period": cascade.NSUB, "control_period_s": loop.C["dt"],
                        "run_s": cascade.T_END_S},
        "sim_wall_s": round(sim_wall, 1),
        "tlc_trace_lines_per_s_per_instance": st["lines_per_s_per_tlc"],
        "selftest": stest,
        "exhaustive": False,
    })


if __name__ == "__main__":
    main_wrap(main)
