"""C04 -- Ad, ad, bracket vs matrix conjugation / commutators (spec/Adjoint.tla)."""
import sys, json
import numpy as np
import casadi as ca
from harness.core import Run, run_tlc, parse_dump, main_wrap, MachineryError
from harness.cas import batch_call
from harness.lie import group_of, group_key, embed, rm_to_np, FnCache, sym_elem

PID = "C04"
TOL = 1e-9


def algebra(kind):
    import cyecca.lie as L
    return {"so2": L.so2, "se2": L.se2, "r2": L.r2, "r3": L.r3, "so3": L.so3, "se3": L.se3, "se23": L.se23}[kind]


def group_builder(G, op):
    def mk():
        a, X = sym_elem(G, "a")
        if op == "Ad":
            return ca.Function("f", [a], [ca.densify(X.Ad())])
        if op in ("AdInv", "AdInvPole"):
            return ca.Function("f", [a], [ca.densify(X.inverse().Ad())])
        if op in ("AdHom", "AdHomPole"):
            b, Y = sym_elem(G, "b")
            AX = X.Ad(); AY = Y.Ad()         # both operators are held before either is used (a user's A = X.Ad(); B = Y.Ad(); A @ B)
            return ca.Function("f", [a, b], [ca.densify((X * Y).Ad()), ca.densify(AX @ AY)])
    return mk


def alg_builder(alg, op):
    def mk():
        n = alg.n_param
        a = ca.SX.sym("a", n); x = alg.elem(a)
        if op == "ad":
            return ca.Function("f", [a], [ca.densify(x.ad()), ca.densify(x.to_Matrix())])
        b = ca.SX.sym("b", n); y = alg.elem(b)
        if op == "br":
            return ca.Function("f", [a, b], [(x * y).param, (y * x).param])
        c = ca.SX.sym("c", n); z = alg.elem(c)
        if op == "jac":
            Ax = x.ad(); Ay = y.ad()         # two ad matrices held at once, then used: ad_x (ad_y z) = [x,[y,z]]
            return ca.Function("f", [a, b, c], [(x * (y * z)).param,
                                                (x * (y * z)).param + (y * (z * x)).param + (z * (x * y)).param,
                                                ca.densify(Ax @ (Ay @ c))])
    return mk


def compare(run, key, what, out, exp, tvs, scale_min=1.0, tol=TOL):
    with np.errstate(invalid="ignore"):
        d = np.max(np.abs(out - exp), axis=0)
    sc = np.maximum(scale_min, np.max(np.abs(exp), axis=0))
    bad = ~(d <= tol * sc)
    if np.any(~bad):
        run.err(float(np.max(d[~bad])))
    for k in np.nonzero(bad)[0]:
        run.violation(key, what, {"tv": tvs[k], "got": out[:, k].tolist(), "want": exp[:, k].tolist()})


def replay_group_op(run, cache, op, gk, tvs):
    G = group_of(tvs[0]["a"][0])
    n = G.algebra.n_param
    built = cache.get((op, gk), group_builder(G, op))
    if isinstance(built, tuple):
        if built[0] == "notimpl":
            run.count("skipped_notimplemented", len(tvs)); return
        run.violation(f"{gk}/{op}/raises:{type(built[1]).__name__}", f"raises {built[1]}", {"tv": tvs[0]}); return
    f = built
    if tuple(f.size_out(0)) != (n, n):
        run.violation(f"{gk}/{op}/shape", f"Ad is {tuple(f.size_out(0))}, not a square operator on the {n}-parameter algebra", {"tv": tvs[0]})
        return
    k = 2 if op in ("AdHom", "AdHomPole") else 1
    cols = [np.array([embed(tv["a"][i]) for tv in tvs]).T for i in range(k)]
    outs = batch_call(f, cols)
    out = outs[0]
    run.count("evaluations", len(tvs))
    exp = np.array([rm_to_np(tv["exp"]).flatten(order="F") for tv in tvs]).T
    compare(run, f"{gk}/{op}/value", f"{op}: differs from the conjugation matrix", out, exp, tvs,
            tol=(2e-3 if op.endswith("Pole") else TOL))      # documented gimbal band tolerance for results on a pole
    if k == 2:
        compare(run, f"{gk}/{op}/operator_product", "Ad_X Ad_Y (both operators held, then multiplied) differs from the conjugation matrix of XY",
                outs[1], exp, tvs, tol=(2e-3 if op.endswith("Pole") else TOL))


def replay_alg_op(run, cache, op, kind, tvs):
    alg = algebra(kind)
    n = alg.n_param
    built = cache.get((op, kind), alg_builder(alg, op))
    if isinstance(built, tuple):
        if built[0] == "notimpl":
            run.count("skipped_notimplemented", len(tvs)); return
        run.violation(f"{kind}/{op}/raises:{type(built[1]).__name__}", f"raises {built[1]}", {"tv": tvs[0]}); return
    f = built
    names = {"ad": ["x"], "br": ["x", "y"], "jac": ["x", "y", "z"]}[op]
    cols = [np.array([tv[nm] for tv in tvs], float).T for nm in names]
    if op == "ad" and tuple(f.size_out(0)) != (n, n):
        run.violation(f"{kind}/ad/shape", f"ad is {tuple(f.size_out(0))}, not a square operator on the {n}-parameter algebra", {"tv": tvs[0]})
        return
    outs = batch_call(f, cols)
    run.count("evaluations", len(tvs))
    if op == "ad":
        exp = np.array([np.array(tv["exp"], float).flatten(order="F") for tv in tvs]).T
        compare(run, f"{kind}/ad/value", "ad_x differs from the commutator matrix", outs[0], exp, tvs)
        expw = np.array([np.array(tv["wedge"], float).flatten(order="F") for tv in tvs]).T
        compare(run, f"{kind}/to_Matrix/value", "algebra to_Matrix differs from the wedge matrix", outs[1], expw, tvs)
    elif op == "br":
        exp = np.array([tv["exp"] for tv in tvs], float).T
        compare(run, f"{kind}/bracket/value", "bracket differs from the matrix commutator", outs[0], exp, tvs)
        compare(run, f"{kind}/bracket/antisymmetry", "[y,x] != -[x,y]", outs[1], -exp, tvs)
    else:
        exp = np.array([tv["exp"] for tv in tvs], float).T
        compare(run, f"{kind}/bracket/nested", "[x,[y,z]] differs from the matrix commutator", outs[0], exp, tvs)
        compare(run, f"{kind}/bracket/jacobi", "Jacobi identity violated", outs[1], 0 * exp, tvs)
        compare(run, f"{kind}/ad/operator_form", "ad_x (ad_y z), with both ad matrices obtained before either is used, differs from [x,[y,z]]",
                outs[2], exp, tvs)


def replay_adsum(run, tvs):
    for tv in tvs:
        alg = algebra(tv["parts"][0][0])
        for prt in tv["parts"][1:]:
            alg = alg * algebra(prt[0])
        x = np.concatenate([np.array(prt[1], float) for prt in tv["parts"]])
        key = "+".join(prt[0] for prt in tv["parts"])
        try:
            A = np.array(ca.DM(alg.elem(ca.DM(x)).ad()))
        except NotImplementedError:
            run.count("skipped_notimplemented"); continue
        except Exception as e:
            run.violation(f"{key}/ad/raises:{type(e).__name__}", str(e), {"tv": tv}); continue
        run.count("evaluations")
        E = np.array(tv["exp"], float)
        if A.shape != E.shape:
            run.violation(f"{key}/ad/shape", f"direct-sum ad is {A.shape}, algebra has {E.shape[0]} parameters", {"tv": tv})
        elif np.max(np.abs(A - E)) > TOL:
            run.violation(f"{key}/ad/value", "direct-sum ad differs from the block-diagonal commutator matrix", {"tv": tv, "got": A.tolist()})
        try:        # the hat matrix of the sum: block diagonal of the factors' hat matrices (matrix offsets, not parameter offsets)
            Wm = np.array(ca.DM(ca.densify(alg.elem(ca.DM(x)).to_Matrix())))
            Ww = np.array(tv["wedge"], float)
            if Wm.shape != Ww.shape or np.max(np.abs(Wm - Ww)) > TOL:
                run.violation(f"{key}/to_Matrix/value", "direct-sum to_Matrix differs from the block-diagonal matrix of the factors' hat matrices",
                              {"tv": tv, "got": Wm.tolist()})
        except NotImplementedError:
            run.count("skipped_notimplemented")
        except Exception as e:      # noqa
            run.violation(f"{key}/to_Matrix/raises:{type(e).__name__}", str(e), {"tv": tv})


def dispatch(run, cache, tvs_by):
    for key, tvs in sorted(tvs_by.items()):
        op = key[0]
        if op in ("Ad", "AdInv", "AdHom", "AdHomPole", "AdInvPole"):
            replay_group_op(run, cache, op, key[1], tvs)
        elif op == "adsum":
            replay_adsum(run, tvs)
        else:
            replay_alg_op(run, cache, op, key[1], tvs)


def keyof(tv):
    if tv["op"] in ("Ad", "AdInv", "AdHom", "AdHomPole", "AdInvPole"):
        return (tv["op"], group_key(tv["a"][0]))
    if tv["op"] == "adsum":
        return ("adsum", "")
    return (tv["op"], tv["kind"])


def main():
    tier = sys.argv[1] if len(sys.argv) > 1 else "quick"
    run = Run(PID, tier)
    cache = FnCache()
    from harness.lie import prelude as _prelude
    _prelude(run, report=("adjoint",))
    from harness import history as _history      # engine H: call histories in fresh interpreters (spec/LieHistory.tla)
    if _history.hook(run, tier, {"Ad", "Ad_held", "Ad_after_extend"}):
        return run.finish()
    if "--replay" in sys.argv:
        d = json.load(open(sys.argv[sys.argv.index("--replay") + 1]))
        tv = d["data"]["tv"]
        dispatch(run, cache, {keyof(tv): [tv]})
        return run.finish()
    res = run_tlc("Adjoint.tla", f"Adjoint_{tier}.cfg", workdir=run.workdir, dump=True)
    run.add_tlc("Adjoint", res)
    by = {}
    n = 0
    for st in parse_dump(res["dump"]):
        tv = st["tv"]
        if tv["op"].startswith("seed"):
            continue
        n += 1
        by.setdefault(keyof(tv), []).append(tv)
    for key, tvs in sorted(by.items()):
        t = tvs[len(tvs) // 2]
        run.sample({"op": key[0], "on": key[1], "args": t.get("a") or [t.get("x"), t.get("y"), t.get("z")]}, limit=8)
    dispatch(run, cache, by)
    # clause "Ad_exp(x) = expm(ad_x)": exp(s*xi) for screw-form xi is an exact rational element E
    # (spec/ExpLog.tla, one-parameter subgroup proven by TLC); the code's exp(s*xi).Ad() must equal
    # the conjugation matrix AdClosed(E)  (= expm(ad) by uniqueness of one-parameter groups)
    from harness import explog as EL
    res2 = run_tlc("ExpLog.tla", f"ExpLog_{tier}.cfg", workdir=run.workdir, dump=True)
    run.add_tlc("ExpLog", res2)
    nad = 0
    cmp = EL.Cmp(run)
    for st in parse_dump(res2["dump"]):
        tv = st["tv"]
        if tv["op"] not in ("exp_se3_screw", "exp_se23_screw"):
            continue
        kind = "se3" if tv["op"] == "exp_se3_screw" else "se23"
        f, names = EL.f_exp(cache, kind, tv["rep"])
        x = EL.xvec(tv["h"])
        if kind == "se3":
            a = tv["s"] * np.concatenate([EL.screw_rho(tv["h"], tv["alpha"], tv["y"]), x])
        else:
            a = tv["s"] * np.concatenate([EL.screw_rho(tv["h"], tv["a1"], tv["y1"]), EL.screw_rho(tv["h"], tv["a2"], tv["y2"]), x])
        if "Ad" not in names:
            run.violation(f"{kind.upper()}{tv['rep']}/AdExp/raises", "exp(x).Ad() could not be built", {"tv": tv}); continue
        out = np.array(f(a)[names.index("Ad")])
        cmp.vec(f"{kind.upper()}{tv['rep']}/AdExp/value", "Ad_exp(x) differs from the conjugation matrix of the exact exp(x)", out, rm_to_np(tv["Ad"]), tv)
        # and expm(ad_x) computed from the code's own ad_x (scipy) must agree as well
        nad += 1
        if nad % 7 == 0:
            import scipy.linalg
            alg = algebra(kind)
            adx = np.array(ca.DM(alg.elem(ca.DM(a)).ad()))
            cmp.vec(f"{kind.upper()}{tv['rep']}/AdExp/expm_ad", "expm(ad_x) differs from Ad of the exact exp(x)", scipy.linalg.expm(adx), rm_to_np(tv["Ad"]), tv)
    run.count("AdExp_vectors", nad)
    n += nad
    if nad == 0:
        raise MachineryError("vacuous coverage: no AdExp vectors")
    need = {("Ad", g) for g in ["SO2", "SE2", "R2", "R3", "SO3quat", "SO3mrp", "SO3dcm", "SO3euler", "SE3quat", "SE3mrp", "SE23quat", "SE23mrp"]}
    need |= {("ad", k) for k in ["so2", "se2", "r2", "r3", "so3", "se3", "se23"]}
    need |= {("AdHomPole", "SO3euler"), ("AdInvPole", "SO3euler")}
    if not need <= set(by):
        raise MachineryError(f"vacuous coverage: never exercised: {need - set(by)}")
    run.assumptions += [
        "group elements rational (integer quaternions / Pythagorean angles / rational translations), algebra elements integer vectors; Ad/ad are linear in y so matrix equality covers every y",
        "Ad and bracket on direct products raise NotImplementedError and are out of scope (counted as skipped)",
        "the clause Ad_exp(x) = expm(ad_x) is decided on screw-form elements of spec/ExpLog.tla whose exponential is an exact rational element (one-parameter subgroup law proven by TLC)",
    ]
    return run.finish({
        "traces_validated_against_impl": n, "evaluations": run.counts.get("evaluations", 0),
        "distinct_nontrivial": n,
        "rule": "one TLC state = (operation, exact operands, exact expected matrix/vector); all are non-trivial (no identity-only vectors)",
        "per_op": {f"{k[0]}/{k[1]}": len(v) for k, v in sorted(by.items())}, "exhaustive": True,
    })


if __name__ == "__main__":
    main_wrap(main)
