"""G03 (growth) -- the log replay node cyecca/sim/replay.py (ULogReplay).

 (1) spec/ReplayNode.tla: TLC model-checks the schedule of the node (stable merge of all logged
     samples by time stamp, Publish / Skip in that order at simulated time stamp - first stamp) on a
     lattice of small logs (handled / ignored / unknown topics, equal stamps across and within
     topics, gaps, unsorted and empty topics), 13 invariants on every state.
 (2) every configuration TLC enumerated is turned into a synthetic log (fake pyulog.ULog, no file
     needed), replayed by the REAL node on the real uros Core (harness/replay_rec.py) and the
     recording is validated line by line by TLC against spec/ReplayNodeTrace.tla (engine C).
 (3) the copied DATA is compared with the synthetic log in numpy (keys replay/<clause>/<cell>).
 (4) probes outside the lattice: double-rounding ties (two samples with one stamp after a gap),
     an empty log, two instances of one handled topic; corruption self-test of the trace checker.

Growth specs never raise a property alarm: harness.core prints DEVIATION for ids starting with G."""
import copy
import json
import os
import random
import sys

import numpy as np

from harness.core import Run, run_tlc, parse_dump, main_wrap, MachineryError, NCPU
from harness import tracecheck

PID = "G03"
BASES = (0, 1_000, 1_700_000_000, 3_600_000_000, 86_400_000_000)       # absolute offset of the log (us): none ... one day of up-time


# ------------------------------------------------------------------ classification of a configuration
def merged(stamps):
    """what Python's list.sort(key=stamp) makes of the flattened log: (p, k, s), 1-based p and k (mirror of Merged in ReplayNode.tla)"""
    fl = [(p + 1, k + 1, s) for p, ss in enumerate(stamps) for k, s in enumerate(ss)]
    fl.sort(key=lambda e: e[2])
    return fl


def float_tie(stamps, base):
    """does the double arithmetic of the transcribed loop (t = s/1e6 - t0/1e6 ; now += t - now) overshoot a time
    that the NEXT sample shares?  (classification of the cell only; the verdict comes from the run)"""
    m = merged(stamps)
    if not m:
        return False
    t0 = np.uint64(base + m[0][2]) / 1e6
    now = 0.0
    for (_, _, s) in m:
        t = float(np.uint64(base + s) / 1.0e6 - t0)
        w = t - now
        if w < 0:
            return True
        now = now + w
    return False


def tags(c):
    from harness.replay_rec import kind
    names, stamps = c["names"], c["stamps"]
    kinds = [kind(n) for n in names]
    allst = [s for ss in stamps for s in ss]
    m = merged(stamps)
    t = set()
    if float_tie(stamps, c.get("base", 0)):
        t.add("float_tie")
    if all(k == "ignored" for k in kinds):
        t.add("only_ignored")
    if "handled" not in kinds:
        t.add("no_handled")
    if any(a > b for ss in stamps for a, b in zip(ss, ss[1:])):
        t.add("unsorted_topic")
    if any(len(ss) == 0 for ss in stamps):
        t.add("empty_topic")
    if len(allst) >= 2 and len(set(allst)) == 1:
        t.add("all_stamps_equal")
    if kinds[m[0][0] - 1] == "unknown":
        t.add("unknown_first")
    if kinds[m[0][0] - 1] == "ignored":
        t.add("ignored_first")
    if any(set(stamps[a]) & set(stamps[b]) for a in range(len(stamps)) for b in range(a)):
        t.add("equal_across_topics")
    if any(len(set(ss)) < len(ss) for ss in stamps):
        t.add("equal_within_topic")
    if len(names) == 1:
        t.add("single_topic")
    if len(set(allst)) == len(allst):
        t.add("distinct_stamps")
    if any(b - a >= 100000 for a, b in zip(sorted(allst), sorted(allst)[1:])):
        t.add("long_gap")
    return t


PRIORITY = ("float_tie", "only_ignored", "no_handled", "unsorted_topic", "empty_topic", "all_stamps_equal", "unknown_first", "ignored_first",
            "equal_across_topics", "equal_within_topic", "single_topic", "distinct_stamps")
NEED_TAGS = set(PRIORITY) - {"float_tie"} | {"long_gap"}


def cfg_class(c):
    t = tags(c)
    return next((p for p in PRIORITY if p in t), "general")


def slim(c):
    return {k: c[k] for k in ("tid", "names", "stamps", "base", "f32", "nan")}


# ------------------------------------------------------------------ configurations
def configs_from_dump(path, seed):
    """one configuration per TLC initial state; the merged order TLC computed is compared with Python's stable sort"""
    rnd = random.Random(seed)
    extra_base = rnd.randrange(1, 2_000_000_000)
    cfgs = []
    nstates = 0
    for st in parse_dump(path):
        rp = st["rp"]
        nstates += 1
        if not (rp["i"] == 0 and rp["pc"] == "next" and rp["ev"]["e"] == "none"):
            continue
        names = list(rp["names"]); stamps = [list(s) for s in rp["stamps"]]
        if [tuple(e) for e in rp["m"]] != merged(stamps):
            raise MachineryError(f"ReplayNode.Merged is not Python's stable list.sort for {stamps}: {rp['m']} vs {merged(stamps)}")
        cfgs.append({"names": names, "stamps": stamps})
    cfgs.sort(key=lambda c: json.dumps(c, sort_keys=True))
    from harness.replay_rec import HANDLED
    for i, c in enumerate(cfgs):
        c["tid"] = i + 1
        j = i + seed
        c["base"] = (BASES + (extra_base,))[j % (len(BASES) + 1)]
        c["f32"] = (j // 2) % 3 != 0
        hs = [(p, k) for p, n in enumerate(c["names"]) if n in HANDLED for k in range(len(c["stamps"][p]))]
        c["nan"] = list(hs[j % len(hs)]) if hs and j % 4 == 1 else None
    return cfgs, nstates


def rounding_tie(c, info):
    """the run raised AssertionError, the sample it stopped at has the SAME stamp as the one before it (a tie), and the simulated
    time exceeds the target time of that stamp by less than 1e-9 s: the failure is the double-rounding artefact and nothing else"""
    if not (info["exc"] and info["exc"][0] == "run" and info["exc"][1] == "AssertionError"):
        return False
    m = merged(c["stamps"])
    j = info["n"]["wait"]                   # one wait per processed sample: the node stopped at sample j (0-based) of the merged list
    if not (1 <= j < len(m)) or m[j][2] != m[j - 1][2]:
        return False
    t = float(np.uint64(c["base"] + m[j][2]) / 1.0e6 - np.uint64(c["base"] + m[0][2]) / 1e6)
    return 0.0 < info["now_float"] - t < 1e-9


def report_run(run, c, info):
    """violations that need no trace checker: exceptions and data clauses"""
    cls = cfg_class(c)
    if info["exc"] and rounding_tie(c, info):
        run.violation(f"replay/wait_negative_by_rounding/{cls}", "two samples share one time stamp after a gap: simulated time reached by "
                      "now + (t - now) exceeds t by one rounding error and `assert wait >= 0` fails for the second sample",
                      {"cfg": slim(c), "exception": info["exc"], "now": info["now_float"], "events_processed": info["n"]["wait"],
                       "merged_expected": merged(c["stamps"])})
    elif info["exc"]:
        where, ty, text = info["exc"]
        run.violation(f"replay/{where}_raised_{ty}/{cls}", f"ULogReplay {'constructor' if where == 'init' else 'process'} raised {ty}: {text}",
                      {"cfg": slim(c), "exception": info["exc"], "tags": sorted(tags(c))})
    for f in info["fails"]:
        if f.get("drift"):
            run.spec_drift(f"replay/{f['clause']}/{f['cell']}", "a message field the node has no source for is not NaN (implementation detail)")
        else:
            run.violation(f"replay/{f['clause']}/{f['cell']}", f"message field {f['clause']} on bus topic {f['bus']} is not the value logged in sample "
                          f"{f['k']} of log topic #{f['p']} ({c['names'][f['p']]})", {"cfg": slim(c), "fail": f})


def record_all(run, cfgs):
    from harness import replay_rec as R
    import io
    import contextlib
    traces, infos = [], {}
    sink = io.StringIO()
    try:
        for c in cfgs:
            with contextlib.redirect_stdout(sink):          # the node prints a line per unknown topic / event
                lines, info = R.run_replay(c)
            sink.seek(0); sink.truncate()
            traces.append(lines); infos[c["tid"]] = info
            report_run(run, c, info)
    finally:
        R.cleanup()
    return traces, infos


def validate(run, cfgs, traces, infos, name="ReplayNodeTrace", sub=""):
    wd = run.workdir + ("/" + sub if sub else "")
    os.makedirs(wd, exist_ok=True)
    val = tracecheck.validate("ReplayNodeTrace.tla", "ReplayNodeTrace.cfg", traces, wd, shards=max(1, min(NCPU - 2, len(traces) // 150)))
    run.tlc.append({"name": name, "states": val["states"], "distinct": val["states"], "depth": val["lines"], "wall_s": round(val["wall_s"], 2)})
    bytid = {c["tid"]: c for c in cfgs}
    rejected = {}
    for tid, line, clause in val["rejects"]:
        rejected.setdefault(tid, clause)
    for tid, clause in sorted(rejected.items()):
        c = bytid[tid]
        if clause == "run_raised_exception" or (infos[tid]["exc"] and infos[tid]["exc"][0] == "init"):
            continue                        # already reported with the exception type by report_run
        tr = next(t for t in traces if t[0]["tid"] == tid)
        run.violation(f"replay/{clause}/{cfg_class(c)}", f"recorded ULogReplay run rejected by ReplayNodeTrace: {clause}",
                      {"cfg": slim(c), "clause": clause, "tags": sorted(tags(c)), "merged_expected": merged(c["stamps"]), "lines": tr[1:40]})
    return val, rejected


# ------------------------------------------------------------------ probes outside the TLC lattice
def float_tie_cfgs(n, seed, tid0):
    """logs  sensor_combined [t0, a, b], vehicle_magnetometer [b]  (two samples share the stamp b after a gap) for which the
    transcribed double arithmetic overshoots b: found by seeded search, small absolute stamps (a fresh boot)"""
    rnd = random.Random(1000 + seed)
    out = []
    tries = 0
    while len(out) < n and tries < 2_000_000:
        tries += 1
        t0 = rnd.randrange(1, 5000); a = t0 + rnd.randrange(1, 200000); b = a + rnd.randrange(1, 200000)
        both = rnd.random() < 0.5
        st = [[t0, a, b], [b]] if both else [[t0, a, b, b]]
        if float_tie(st, 0):
            out.append({"tid": tid0 + len(out), "names": ["sensor_combined", "vehicle_magnetometer"][:len(st)], "stamps": st, "base": 0,
                        "f32": bool(len(out) % 2), "nan": None})
    if len(out) < n:
        raise MachineryError("float-tie probe: search found too few candidates")
    return out


def edge_probes(run):
    """behaviour nobody specified (reported as SPEC-DRIFT, never an alarm): an empty log, two instances of one handled topic"""
    from harness import replay_rec as R
    import io
    import contextlib
    res = {}
    try:
        for label, names, stamps in (("empty_log/no_topic", [], []), ("empty_log/topic_without_samples", ["sensor_combined"], [[]]),
                                     ("multi_instance_topic/estimator_status", ["estimator_status", "estimator_status"], [[1500, 2000], [1500, 2500]])):
            with contextlib.redirect_stdout(io.StringIO()):
                lines, info = R.run_replay({"tid": 1, "names": names, "stamps": stamps, "base": 0, "f32": True, "nan": None})
            if info["exc"]:
                res[label] = f"{info['exc'][0]}:{info['exc'][1]}"
                run.spec_drift(f"replay/{label}/{info['exc'][0]}_raised_{info['exc'][1]}",
                               f"ULogReplay raises {info['exc'][1]} in its {'constructor' if info['exc'][0] == 'init' else 'process'} ({info['exc'][2][:80]})")
            else:
                res[label] = f"{info['n']['pub']} messages, end at {info['end']} us"
    finally:
        R.cleanup()
    return res


# ------------------------------------------------------------------ corruption self-test
def selftest(run, traces, rejected):
    def good(t):
        pubs = [ln for ln in t if ln["e"] == "pub"]
        waits = [ln for ln in t if ln["e"] == "wait"]
        return (t[0]["tid"] not in rejected and t[-1].get("exc") == "" and len(pubs) >= 3 and len(waits) > len(pubs)
                and len({ln["bus"] for ln in pubs}) >= 2 and len({ln["now"] for ln in pubs}) >= 2 and pubs[0]["bus"] != pubs[1]["bus"])
    clean = [t for t in traces if good(t)]
    if not clean:
        if run.viol:
            run.count("selftest_skipped_no_accepted_trace")
            return {"skipped": "no accepted trace"}
        raise MachineryError("selftest: no accepted trace to corrupt")
    base = clean[len(clean) // 2]

    def idx(t, e, nth=0, pred=lambda ln: True):
        return [i for i, ln in enumerate(t) if ln["e"] == e and pred(ln)][nth]

    def e_drop_pub(t): del t[idx(t, "pub", 1)]
    def e_drop_wait(t): del t[idx(t, "wait", 1)]
    def e_drop_end(t): del t[-1]
    def e_stamp(t): t[idx(t, "pub", 1)]["stamp"] += 500
    def e_until(t): t[idx(t, "wait", 0, lambda ln: ln["until"] > ln["now"])]["until"] += 1
    def e_bus(t): t[idx(t, "pub", 0)]["bus"] = "log_attitude" if t[idx(t, "pub", 0)]["bus"] != "log_attitude" else "imu"
    def e_type(t): t[idx(t, "pub", 0)]["ty"] = "Msg"
    def e_data(t): t[idx(t, "pub", 2)]["ok"] = 0
    def e_k(t): t[idx(t, "pub", 0)]["k"] += 1
    def e_swap_pubs(t):
        i, j = idx(t, "pub", 0), idx(t, "pub", 1); t[i], t[j] = t[j], t[i]
    def e_swap_wait_pub(t):
        j = idx(t, "pub", 1); t[j - 1], t[j] = t[j], t[j - 1]
    def e_extra_publisher(t): t[0]["pubs"] = t[0]["pubs"] + [["baro", "Imu"]]
    def e_first_not_zero(t):
        for ln in t[1:]:
            for f in ("now", "until", "stamp"):
                if f in ln:
                    ln[f] += 500

    edits = [(e_drop_pub, "publication_missing"), (e_drop_wait, None), (e_drop_end, "trace_truncated"), (e_stamp, "time_field_is_not_sim_time"),
             (e_until, None), (e_bus, "wrong_bus_topic"), (e_type, "wrong_message_type"), (e_data, "data_not_copied"), (e_k, "sample_out_of_order"),
             (e_swap_pubs, None), (e_swap_wait_pub, None), (e_extra_publisher, "publisher_on_unexpected_bus_topic"), (e_first_not_zero, None)]
    vs = []
    for i, (e, _) in enumerate(edits):
        t = copy.deepcopy(base)
        e(t)
        for ln in t:
            ln["tid"] = 900000 + i
        vs.append(t)
    # the truncated variant must be followed by another run for the truncation to be visible; the clean base goes last
    os.makedirs(run.workdir + "/st", exist_ok=True)
    res = tracecheck.validate("ReplayNodeTrace.tla", "ReplayNodeTrace.cfg", vs + [base], run.workdir + "/st", shards=1)
    got = {}
    for tid, line, clause in res["rejects"]:
        got.setdefault(tid, clause)
    for i, (e, want) in enumerate(edits):
        if 900000 + i not in got or (want is not None and got[900000 + i] != want):
            raise MachineryError(f"selftest: corrupted trace {i} ({e.__name__}) not rejected as expected: want {want}, got {got.get(900000 + i)}")
    if base[0]["tid"] in got:
        raise MachineryError("selftest: the unmodified trace was rejected next to its corrupted copies")
    run.count("selftest_corruptions_rejected", len(edits))
    return {edits[i][0].__name__[2:]: got[900000 + i] for i in range(len(edits))}


# ------------------------------------------------------------------ main
def main():
    tier = sys.argv[1] if len(sys.argv) > 1 else "quick"
    run = Run(PID, tier)
    if "--replay" in sys.argv:
        d = json.load(open(sys.argv[sys.argv.index("--replay") + 1]))
        c = d["data"]["cfg"]
        traces, infos = record_all(run, [c])
        validate(run, [c], traces, infos)
        return run.finish()
    try:
        from harness import replay_rec as R
        import cyecca.sim.replay  # noqa: F401
    except Exception as e:      # noqa: the module cannot even be imported from this tree
        run.violation(f"replay/import_raises/{type(e).__name__}", f"importing cyecca.sim.replay raises: {e}", {"exception": repr(e)})
        return run.finish()
    res = run_tlc("ReplayNode.tla", f"ReplayNode_{tier}.cfg", workdir=run.workdir, dump=True)
    run.add_tlc("ReplayNode", res)
    cfgs, nstates = configs_from_dump(res["dump"], run.seed)
    os.remove(res["dump"])
    import re
    m = re.search(r"Finished computing initial states: (\d+) distinct", res["out"])
    if not m or int(m.group(1)) != len(cfgs) or nstates != res["distinct"]:
        raise MachineryError(f"dump does not hold every configuration: TLC {m.group(1) if m else '?'} initial states / {res['distinct']} states, "
                             f"read {len(cfgs)} / {nstates}")
    nft = 12 if tier == "quick" else 60
    probes = float_tie_cfgs(nft, run.seed, 500000)
    allc = cfgs + probes
    traces, infos = record_all(run, allc)
    val, rejected = validate(run, allc, traces, infos)
    edge = edge_probes(run)

    # ---- vacuity guards
    seen = set()
    classes = {}
    for c in cfgs:
        seen |= tags(c)
        classes[cfg_class(c)] = classes.get(cfg_class(c), 0) + 1
    if not NEED_TAGS <= seen:
        raise MachineryError(f"vacuous coverage: configuration classes never run: {sorted(NEED_TAGS - seen)}")
    kinds = {}
    for c in cfgs:
        for n, ss in zip(c["names"], c["stamps"]):
            if ss:
                kinds[R.kind(n)] = kinds.get(R.kind(n), 0) + 1
                if n in R.HANDLED:
                    kinds[n] = kinds.get(n, 0) + 1
    if not ({"handled", "ignored", "unknown"} | set(R.HANDLED)) <= set(kinds):
        raise MachineryError(f"vacuous coverage: topic kinds with samples: {kinds}")
    clean = not run.viol
    lk, bus_seen, est_n, nan_pub = {}, {}, set(), 0
    for t in traces:
        for ln in t:
            lk[ln["e"]] = lk.get(ln["e"], 0) + 1
    for c in allc:
        for bus, ty, now, p, k in infos[c["tid"]]["msgs"]:
            bus_seen[bus] = bus_seen.get(bus, 0) + 1
            if p >= 0 and c["names"][p] == "estimator_status":
                est_n.add(R.NSTATES[k])
            if c["nan"] and [p, k] == list(c["nan"]):
                nan_pub += 1
    if clean:       # on a tree that deviates the counts below may legitimately be off: the deviation is the verdict
        if not {"start", "wait", "pub", "end"} <= set(lk) or lk["wait"] <= lk["pub"]:
            raise MachineryError(f"vacuous coverage: trace line kinds {lk} (skipped events need waits without publication)")
        if set(bus_seen) != {v[0] for v in R.HANDLED.values()}:
            raise MachineryError(f"vacuous coverage: bus topics with messages: {bus_seen}")
        if not {0, 24, 3} <= est_n or nan_pub == 0:
            raise MachineryError(f"vacuous coverage: estimator_status n_states published {sorted(est_n)}, NaN samples published {nan_pub}")
    if not ({c["f32"] for c in cfgs} == {True, False} and {c["base"] for c in cfgs} >= set(BASES)):
        raise MachineryError("vacuous coverage: float32 / float64 logs and every absolute offset are required")
    st = selftest(run, traces, set(rejected))
    for c in (cfgs[0], cfgs[len(cfgs) // 3], cfgs[2 * len(cfgs) // 3], cfgs[-1], probes[0]):
        i = infos[c["tid"]]
        run.sample({"log": {k: c[k] for k in ("names", "stamps", "base")}, "class": cfg_class(c), "tags": sorted(tags(c)),
                    "messages_bus_time_us": [(b, t) for b, _, t, _, _ in i["msgs"]][:8], "exception": i["exc"]}, limit=8)
    run.assumptions += [
        "the log is synthetic (fake pyulog.ULog, real pyulog.ULog.Data objects): reading a ULog FILE is pyulog's business and not covered",
        "stamps are whole microseconds; simulated times are compared as whole microseconds (round-trip to 1e-3 us), absolute offsets up to one day",
        "monitoring: the schedule is validated on the executed configurations only (every configuration of the TLC lattice once, offset / float width / NaN sample rotating with the seed)",
        "data: 1e-9 two-sided against the synthetic log; NaN is expected exactly where the log has NaN; covariance: sqrt iff > 0 (float64 sqrt of the logged value)",
        "trusted: harness/replay_rec.py (identification of the source sample by unique numbers, majority vote)",
    ]
    return run.finish({
        "traces_validated_against_impl": len(traces) - len(rejected),
        "evaluations": val["lines"],
        "distinct_nontrivial": sum(v for k, v in classes.items() if k != "distinct_stamps") + len(probes),
        "rule": "one TLC initial state of ReplayNode = one synthetic log = one recorded run of the real node, every line validated by TLC against "
                "ReplayNodeTrace (non-trivial = any class but pairwise distinct stamps); float-tie probes on top",
        "configurations": len(cfgs), "configuration_classes": classes, "tags_seen": sorted(seen), "float_tie_probes": len(probes),
        "float_tie_in_lattice": sum(1 for c in cfgs if "float_tie" in tags(c)),
        "trace_lines_validated": val["lines"], "trace_line_kinds": lk, "messages_per_bus_topic": bus_seen, "runs_rejected": len(rejected),
        "edge_probes": edge, "selftest": st, "exhaustive": tier == "thorough",
    })


if __name__ == "__main__":
    main_wrap(main)
