"""C09 -- generated C code (engine D).

spec/Codegen.tla is the configuration model: equation sets x option assignments of the five
code-generation entry points -> expected artefact inventory, plus per-function input-pattern
rows (pairwise covering designs).  The function lists and option defaults are NOT in the spec:
this check extracts them from the repository at run time (it executes each model module's
`__main__` export list, calls `algorithms.eqs()` / `derive_mr_ref_traj()`, and parses the
option dictionary of each `generate_code`), writes them into a generated module CodegenMC.tla
in the temporary work directory and lets TLC check the contract on them.

For every TLC "generate" state the repository's OWN generator is called with exactly those
options; the emitted .c/.h text is parsed for the externally visible CasADi functions and their
companion symbols and compared with the spec's expected inventory and with the symbolic
function's arity / argument names / sparsity patterns.  Selected rows (implicit default,
explicit default, every single-option toggle; in thorough also the pairwise rows) are compiled
with gcc -Wall, loaded with ca.external and compared with the symbolic function on the inputs
of the "eval" states (C vs symbolic, <= 4 ulp, identical NaN pattern).

Compile rule ("compiles cleanly"): gcc/g++ exit status 0, no error, and no warning other than
the -Wunused-* family (recorded, tolerated).  cpp=True rows are compiled as C++ (g++ -x c++:
CasADi emits `extern "C"` prefixes there); include_math=False rows get `-include math.h` (the
option's documented meaning is that the user supplies the math header); with_mem=True rows get
-I<casadi>/include for <casadi/mem.h>.

Violation keys:  <set>/generate/raises/<option|default|row:bits>, <set>/inventory/missing:<fn>,
<set>/inventory/extra:<fn>, <set>/inventory/duplicated:<fn>, <set>/<fn>/layout/<what>,
<set>/<fn>/companion_missing:<sym>, <set>/header/missing:<fn>, <set>/compile/error,
<set>/compile/warning:<flag>, <set>/<fn>/load_error, <set>/<fn>/value_mismatch,
<set>/<fn>/nan_pattern."""
import ast, tempfile
import contextlib
import importlib
import inspect
import io
import json
import multiprocessing
import os
import re
import runpy
import shutil
import subprocess
import sys
import textwrap
import warnings
import zlib

import numpy as np
import casadi as ca

from harness.core import Run, run_tlc, parse_dump, main_wrap, MachineryError, SPEC

PID = "C09"
NPROC = max(1, min(8, int(os.environ.get("VERIF_C09_PROCS", "8"))))
ULPS = 4
CASADI_INC = os.path.join(os.path.dirname(ca.__file__), "include")

# adapter table: spec set name -> how the repository ships it (names only; contents come from the repo)
SET_ORDER = ("estimator", "simulator", "rdd2", "rdd2_loglinear", "bezier", "mr_ref_traj")
MODEL_MODULES = {"rdd2": "cyecca.models.rdd2", "rdd2_loglinear": "cyecca.models.rdd2_loglinear",
                 "bezier": "cyecca.models.bezier"}
SPEC_KEYS10 = ("verbose", "mex", "cpp", "main", "with_header", "with_mem", "with_export", "with_import",
               "include_math", "avoid_stack")
SPEC_KEYS = {"attitude": ("main", "mex", "with_header", "with_mem"), "rdd2": SPEC_KEYS10,
             "rdd2_loglinear": SPEC_KEYS10, "bezier": SPEC_KEYS10, "generic": SPEC_KEYS10}
SPEC_FILE = {"estimator": "casadi_mrp", "simulator": "casadi_sim", "rdd2": "rdd2",
             "rdd2_loglinear": "rdd2_loglinear", "bezier": "bezier", "mr_ref_traj": "mr_ref_traj"}
SPEC_GEN = {"estimator": "attitude", "simulator": "attitude", "rdd2": "rdd2", "rdd2_loglinear": "rdd2_loglinear",
            "bezier": "bezier", "mr_ref_traj": "generic"}

G = {}      # global state shared with forked workers (CasADi functions are not picklable)


# --------------------------------------------------------------------------------------
# extraction of the shipped configuration from the repository
# --------------------------------------------------------------------------------------
@contextlib.contextmanager
def quiet():
    buf = io.StringIO()
    with contextlib.redirect_stdout(buf), warnings.catch_warnings():
        warnings.simplefilter("ignore")
        yield buf


def option_defaults(fn):
    """Accepted options (key -> default) of a generate_code: observed at run time by letting the generator
    build its option dictionary and intercepting the casadi.CodeGenerator(name, opts) call (robust against
    refactorings of how the dictionary is built); the literal `p = {...}` in the source is only a cross-check."""
    captured = {}

    class _Spy(Exception):
        pass

    def spy(name, opts=None):
        captured.update(opts or {})
        raise _Spy()
    orig = ca.CodeGenerator
    ca.CodeGenerator = spy
    tmp = tempfile.mkdtemp(prefix="c09opt_")
    try:
        x = ca.SX.sym("x")
        f = ca.Function("f", [x], [2 * x])
        params = list(inspect.signature(fn).parameters)
        kw = {}
        for nm in params:
            if nm == "eqs":
                kw[nm] = {"f": {"f": f}} if "filename" not in params else {"f": f}
            elif nm == "filename":
                kw[nm] = "f.c"
            elif nm == "dest_dir":
                kw[nm] = tmp
        try:
            with quiet():
                fn(**kw)
        except _Spy:
            pass
        except Exception as ex:     # noqa
            raise MachineryError(f"{fn.__module__}.generate_code: cannot observe its option dictionary: {type(ex).__name__}: {ex}")
    finally:
        ca.CodeGenerator = orig
        shutil.rmtree(tmp, ignore_errors=True)
    d = {k: v for k, v in captured.items() if k != "force_canonical"}
    # options that are not switches (an indentation width, a prefix) are not part of the modelled on/off lattice: left at their defaults
    d = {k: v for k, v in d.items() if isinstance(v, bool)}
    if not d or not all(isinstance(k, str) and isinstance(v, bool) for k, v in d.items()):
        raise MachineryError(f"{fn.__module__}.generate_code: option dictionary is not str -> bool: {d}")
    return d


def main_block_info(modname):
    """derive_* functions defined at top level and those called inside `if __name__ == '__main__':`."""
    mod = importlib.import_module(modname)
    tree = ast.parse(open(mod.__file__).read())
    defined = [n.name for n in tree.body if isinstance(n, ast.FunctionDef) and n.name.startswith("derive_")]
    called, filename = [], None
    for n in tree.body:
        if isinstance(n, ast.If) and isinstance(n.test, ast.Compare) and getattr(n.test.left, "id", "") == "__name__":
            for c in ast.walk(n):
                if isinstance(c, ast.Call) and isinstance(c.func, ast.Name):
                    if c.func.id.startswith("derive_"):
                        called.append((c.lineno, c.col_offset, c.func.id))
                    if c.func.id == "generate_code":
                        for kw in c.keywords:
                            if kw.arg == "filename" and isinstance(kw.value, ast.Constant):
                                filename = kw.value.value
    return defined, [c[2] for c in sorted(called)], filename


def extract(run, scratch):
    """-> info[set] = dict(funcs: {key: Function} (ordered), gen, file, call(dest, **opts)), defaults[gen]."""
    info, defaults = {}, {}
    # --- attitude estimator package: eqs() is the export list, generate_code the entry point
    with quiet():
        from cyecca.estimate.attitude import algorithms
        eqs_all = algorithms.eqs()
    if list(eqs_all.keys()) != ["mrp", "sim"]:
        raise MachineryError(f"algorithms.eqs() ships {list(eqs_all)}; the spec models ['mrp', 'sim'] (spec stale)")
    defaults["attitude"] = option_defaults(algorithms.generate_code)

    def call_att(dest, **opts):
        algorithms.generate_code(eqs_all, dest, **opts)
    info["estimator"] = {"funcs": dict(eqs_all["mrp"]), "call": call_att, "main_artifact": None}
    info["simulator"] = {"funcs": dict(eqs_all["sim"]), "call": call_att, "main_artifact": None}

    # --- model modules: run the module's own __main__ (export list + shipped default artefact)
    for s, modname in MODEL_MODULES.items():
        mod = importlib.import_module(modname)
        defined, called, filename = main_block_info(modname)
        dest = os.path.join(scratch, "main_" + s)
        os.makedirs(dest, exist_ok=True)
        argv = sys.argv
        main_err = None
        g = None
        try:
            sys.argv = [modname, dest]
            with quiet():
                g = runpy.run_module(modname, run_name="__main__")
        except SystemExit as ex:        # an entry point written as sys.exit(main()): status 0 / None is success
            if ex.code not in (None, 0):
                main_err = f"SystemExit: {ex.code}"
        except BaseException as ex:     # noqa: the shipped entry point itself fails
            main_err = f"{type(ex).__name__}: {ex}"
        finally:
            sys.argv = argv
        if main_err is not None:
            run.violation(f"{s}/generate/raises/default", f"`python -m {modname} <dir>` fails: {main_err}",
                          {"kind": "main", "set": s, "error": main_err})
        if main_err is None and isinstance((g or {}).get("eqs"), dict) and g["eqs"]:
            eqs = g["eqs"]
        else:
            # the entry point failed, or it does not leave its equation set in a module-level variable `eqs` (its body may
            # live in a function): what it ships is what its ARTEFACT defines -- read the C file(s) it wrote and take the
            # functions of that name from the library's own derivations; fall back to the derive_*() calls of the source
            eqs = {}
            shipped = []
            if main_err is None:
                for fn_ in sorted(os.listdir(dest)):
                    if fn_.endswith(".c"):
                        try:
                            shipped += [d_ for d_ in parse_artifact(os.path.join(dest, fn_), os.path.join(dest, fn_[:-2] + ".h"))["defs"]]
                            filename = filename or fn_
                        except Exception:       # noqa
                            pass
            pool = {}
            for n in defined:
                try:
                    with quiet():
                        for k_, f_ in getattr(mod, n)().items():
                            if isinstance(f_, ca.Function):
                                pool.setdefault(f_.name(), (k_, f_))
                except Exception:       # noqa
                    pass
            if shipped:
                run.spec_drift(f"{s}/export_list/read_from_artefact", "the entry point keeps its equation set out of the module namespace; "
                               "the functions it ships are read from the C file it writes")
                for nm_ in shipped:
                    if nm_ in pool:
                        eqs[pool[nm_][0]] = pool[nm_][1]
            if not eqs:
                g = {n: getattr(mod, n) for n in called}
                for n in called:
                    eqs.update(g[n]())
            if not eqs:
                for nm_, (k_, f_) in pool.items():
                    eqs[k_] = f_
        # export-list sanity: a later eqs.update() silently replaces an earlier function with the same key
        owner = {}
        for n in called:
            with quiet():
                part = g[n]() if n in g else getattr(mod, n)()
            for k, f in part.items():
                if k in owner:
                    run.violation(f"{s}/inventory/missing:{owner[k][1]}",
                                  f"export key '{k}' of {owner[k][0]}() is overwritten by {n}() in the __main__ export "
                                  f"list: the earlier function is silently dropped", {"kind": "export", "set": s, "key": k})
                owner[k] = (n, f.name())
        if set(owner) != set(eqs):
            # the export list is not written as literal derive_*() calls (a loop over a list, say): the static reading is
            # only an aid; fall back to every derive_* function the module defines
            run.spec_drift(f"{s}/export_list/not_statically_readable", "the __main__ export list is not a sequence of literal derive_*() calls; "
                           "the executed list is used")
            called = list(defined)
        # what the entry point ships must be what the LIBRARY derives: the __main__ block runs in a namespace of its own, and
        # anything it rebinds there (a module constant used by the derivations, say) changes the shipped functions only
        lib = {}
        for n in defined:
            try:
                with quiet():
                    for k, f in getattr(mod, n)().items():
                        if isinstance(f, ca.Function):
                            lib[f.name()] = f
            except Exception:       # noqa
                pass
        rngm = np.random.default_rng(20260101)
        for k, f in eqs.items():
            if not isinstance(f, ca.Function) or f.name() not in lib:
                continue
            g_ = lib[f.name()]
            if g_.n_in() != f.n_in() or any(g_.size_in(i) != f.size_in(i) for i in range(f.n_in())):
                continue
            for _ in range(3):
                args = [ca.DM(rngm.uniform(-1.5, 1.5, f.numel_in(i)).reshape(f.size_in(i), order="F")) for i in range(f.n_in())]
                try:
                    a_ = f(*args); b_ = g_(*args)
                except Exception:       # noqa
                    break
                a_ = a_ if isinstance(a_, (list, tuple)) else [a_]; b_ = b_ if isinstance(b_, (list, tuple)) else [b_]
                va = np.concatenate([np.array(x).flatten() for x in a_]); vb = np.concatenate([np.array(x).flatten() for x in b_])
                same = va.shape == vb.shape and np.array_equal(np.isnan(va), np.isnan(vb)) and \
                    np.all(np.abs(np.nan_to_num(va) - np.nan_to_num(vb)) <= 1e-12 * np.maximum(1.0, np.abs(np.nan_to_num(vb))))
                run.count("entry_point_vs_library_evaluations")
                if not same:
                    run.violation(f"{s}/{f.name()}/entry_point_differs_from_library", f"the function shipped by `python -m {modname}` computes different values "
                                  f"than {modname}'s own derivation of '{f.name()}'", {"kind": "main", "set": s, "function": f.name(),
                                                                                      "inputs": [np.array(x).flatten().tolist() for x in args],
                                                                                      "shipped": va.tolist(), "library": vb.tolist()})
                    break
        for n in defined:
            if n not in called:
                with quiet():
                    names = [f.name() for f in getattr(mod, n)().values()]
                run.spec_drift(f"{s}/export_list/not_shipped:{n}",
                               f"{modname}.{n}() defines {names} but the module's __main__ export list does not ship it")
        fname = filename or (s + ".c")
        main_stem = os.path.splitext(fname)[0]
        if main_stem != SPEC_FILE[s]:
            # the file name is not promised by the property; what is promised (no function of a set dropped) is decided
            # by the shared-directory run below, where two entry points writing the same file lose one set
            run.spec_drift(f"{s}/main_file_name:{fname}", f"`python -m {modname}` writes {fname}; the set is modelled as {SPEC_FILE[s]}.c")
            fname = SPEC_FILE[s] + ".c"
        defaults[s] = option_defaults(mod.generate_code)

        def call_model(dest, _m=mod, _eqs=eqs, _fn=fname, **opts):
            _m.generate_code(_eqs, filename=_fn, dest_dir=dest, **opts)
        info[s] = {"funcs": dict(eqs), "call": call_model, "main_artifact": dest if main_err is None else None,
                   "main_stem": main_stem, "modname": modname}

    # --- reference trajectory: no generator of its own -> the generic cyecca.codegen entry point
    with quiet():
        from cyecca.models import mr_ref_traj
        import cyecca.codegen as generic
        ref = mr_ref_traj.derive_mr_ref_traj()
    defaults["generic"] = option_defaults(generic.generate_code)

    def call_generic(dest, **opts):
        generic.generate_code({"mr_ref_traj": ref}, dest, **opts)
    info["mr_ref_traj"] = {"funcs": dict(ref), "call": call_generic, "main_artifact": None}

    for s in SET_ORDER:
        info[s]["gen"] = SPEC_GEN[s]
        info[s]["file"] = SPEC_FILE[s]
        for k, f in info[s]["funcs"].items():
            if not isinstance(f, ca.Function):
                raise MachineryError(f"{s}: export '{k}' is not a casadi.Function")
            if k != f.name():
                run.spec_drift(f"{s}/export_key!=function_name:{k}->{f.name()}",
                               "python export key and CasADi/C function name differ (the C symbol is the CasADi name)")
    for g_, d in list(defaults.items()):
        extra_opts = [k for k in d if k not in SPEC_KEYS[g_]]
        if extra_opts and set(SPEC_KEYS[g_]) <= set(d):
            # a generator that accepts MORE options than the spec models (an option was added): the modelled ones are
            # enumerated as before, the new ones keep their defaults
            run.spec_drift(f"{g_}/options/not_modelled:{','.join(sorted(extra_opts))}", "the generator accepts options spec/Codegen.tla does not model; "
                           "they are left at their defaults")
            defaults[g_] = d = {k: d[k] for k in d if k in SPEC_KEYS[g_]}
        if tuple(d.keys()) != SPEC_KEYS[g_] and set(d.keys()) != set(SPEC_KEYS[g_]):
            raise MachineryError(f"generator '{g_}' accepts {sorted(d)}; spec/Codegen.tla models {sorted(SPEC_KEYS[g_])} "
                                 f"(update Keys in the spec)")
    return info, defaults


# --------------------------------------------------------------------------------------
# generated MC module
# --------------------------------------------------------------------------------------
def tla_bool(b):
    return "TRUE" if b else "FALSE"


def write_mc(info, defaults, workdir):
    ident = re.compile(r"^[A-Za-z_][A-Za-z0-9_]*$")
    lines = ["---- MODULE CodegenMC ----",
             "(* generated by harness/checks/c09.py from the repository's export lists -- do not edit *)",
             "EXTENDS Codegen",
             "E(k, n, i, o) == [key |-> k, name |-> n, nin |-> i, nout |-> o]"]
    ex = []
    for s in SET_ORDER:
        ents = []
        for k, f in info[s]["funcs"].items():
            if not (ident.match(k) and ident.match(f.name())):
                raise MachineryError(f"{s}: name not representable: {k!r} {f.name()!r}")
            ents.append(f'E("{k}", "{f.name()}", {f.n_in()}, {f.n_out()})')
        ex.append(f"  {s} |-> <<" + ", ".join(ents) + ">>")
    lines.append("MCExports == [\n" + ",\n".join(ex) + "]")
    de = []
    for g_, d in defaults.items():
        de.append(f"  {g_} |-> [" + ", ".join(f"{k} |-> {tla_bool(v)}" for k, v in d.items()) + "]")
    lines.append("MCDefaults == [\n" + ",\n".join(de) + "]")
    lines.append("====")
    path = os.path.join(workdir, "CodegenMC.tla")
    with open(path, "w") as f:
        f.write("\n".join(lines) + "\n")
    return path


# --------------------------------------------------------------------------------------
# parsing of the emitted artefact
# --------------------------------------------------------------------------------------
SIG = r"\(const casadi_real\*\* arg, casadi_real\*\* res, casadi_int\* iw, casadi_real\* w, int mem\)"
RE_DEF = re.compile(r'^(?!static)((?:[\w"]+ )*?)int (\w+)' + SIG + r"\s*\{", re.M)
RE_DECL = re.compile(r'^(?!static)((?:[\w"]+ )*?)int (\w+)' + SIG + r"\s*;", re.M)
RE_ARR = re.compile(r"static const casadi_int (\w+)\[(\d+)\]\s*=\s*\{([^}]*)\};")
COMPANIONS = ("_n_in", "_n_out", "_name_in", "_name_out", "_sparsity_in", "_sparsity_out", "_work",
              "_checkout", "_release", "_incref", "_decref", "_default_in")


def _switch(text, ret, name, suffix, item):
    m = re.search(ret + r" " + re.escape(name + suffix) + r"\(casadi_int i\)\s*\{\s*switch \(i\) \{(.*?)default", text, re.S)
    if not m:
        return None
    return {int(a): b for a, b in re.findall(r"case (\d+): return " + item + ";", m.group(1))}


def parse_artifact(cpath, hpath):
    text = open(cpath).read()
    arrays = {a: [int(x) for x in body.split(",") if x.strip()] for a, n, body in RE_ARR.findall(text)}
    defs = [(p, n) for p, n in RE_DEF.findall(text)]
    out = {"defs": [n for _, n in defs], "prefixes": sorted({p.strip() for p, _ in defs}), "fn": {},
           "bytes": len(text), "has_main": bool(re.search(r"^int main\(", text, re.M)),
           "has_mex": "mexFunction" in text, "has_mathh": "#include <math.h>" in text,
           "header": None}
    for n in dict.fromkeys(out["defs"]):
        d = {"companions": {}}
        for suf in COMPANIONS:
            d["companions"][suf] = len(re.findall(r"^(?!static)[^\n;(]*\b" + re.escape(n + suf) + r"\([^)]*\)\s*\{", text, re.M))
        m = re.search(re.escape(n) + r"_n_in\(void\)\s*\{\s*return (\d+);", text)
        d["n_in"] = int(m.group(1)) if m else None
        m = re.search(re.escape(n) + r"_n_out\(void\)\s*\{\s*return (\d+);", text)
        d["n_out"] = int(m.group(1)) if m else None
        d["name_in"] = _switch(text, r"const char\*", n, "_name_in", r'"([^"]*)"')
        d["name_out"] = _switch(text, r"const char\*", n, "_name_out", r'"([^"]*)"')
        for io_ in ("in", "out"):
            sw = _switch(text, r"const casadi_int\*", n, "_sparsity_" + io_, r"(\w+)")
            d["sparsity_" + io_] = None if sw is None else {i: arrays.get(a) for i, a in sw.items()}
        d["memtable"] = bool(re.search(r"casadi_functions\* " + re.escape(n) + r"_functions\(void\)\s*\{", text))
        d["main"] = ("main_" + n + "(") in text
        d["mex"] = ("mex_" + n + "(") in text
        out["fn"][n] = d
    if hpath and os.path.exists(hpath):
        h = open(hpath).read()
        out["header"] = {"decls": [n for _, n in RE_DECL.findall(h)],
                         "companions": {n: sum(1 for suf in ("_n_in", "_n_out", "_name_in", "_name_out", "_sparsity_in",
                                                              "_sparsity_out", "_work")
                                               if re.search(r"\b" + re.escape(n + suf) + r"\(", h))
                                        for n in dict.fromkeys(out["defs"])}}
    return out


def canon_sparsity(arr):
    """C array -> (nrow, ncol, colind, row) ; the 3-element form {nrow, ncol, 1} abbreviates 'dense'."""
    if arr is None or len(arr) < 2:
        return None
    nrow, ncol = arr[0], arr[1]
    if len(arr) == 3 and arr[2] == 1:
        return (nrow, ncol, tuple(range(0, nrow * ncol + 1, nrow)) if nrow else tuple([0] * (ncol + 1)),
                tuple(list(range(nrow)) * ncol))
    colind = tuple(arr[2:2 + ncol + 1])
    return (nrow, ncol, colind, tuple(arr[2 + ncol + 1:2 + ncol + 1 + (colind[-1] if colind else 0)]))


def sym_sparsity(sp):
    return (sp.size1(), sp.size2(), tuple(sp.colind()), tuple(sp.row()))


def expected_layout(f):
    return {"n_in": f.n_in(), "n_out": f.n_out(),
            "name_in": {i: f.name_in(i) for i in range(f.n_in())},
            "name_out": {i: f.name_out(i) for i in range(f.n_out())},
            "sparsity_in": {i: sym_sparsity(f.sparsity_in(i)) for i in range(f.n_in())},
            "sparsity_out": {i: sym_sparsity(f.sparsity_out(i)) for i in range(f.n_out())}}


def check_artifact(tv, art, funcs, report, drift):
    """Compare one parsed artefact with the spec's expectation (tv) and the symbolic functions."""
    s = tv["set"]
    want = list(tv["functions"])
    got = art["defs"]
    data = {"kind": "generate", "tv": slim(tv)}
    for n in want:
        if got.count(n) == 0:
            report(f"{s}/inventory/missing:{n}", f"function '{n}' of the equation set is not defined in {tv['file']}.c", data)
        elif got.count(n) > 1:
            report(f"{s}/inventory/duplicated:{n}", f"function '{n}' is defined {got.count(n)} times in {tv['file']}.c", data)
    for n in dict.fromkeys(got):
        if n not in want:
            report(f"{s}/inventory/extra:{n}", f"{tv['file']}.c defines '{n}', which is not a function of the equation set", data)
    if [n for n in got if n in want] != want and sorted(got) == sorted(want):
        drift(f"{s}/inventory/order", "functions are emitted in a different order than they were added")
    by_name = {f.name(): f for f in funcs.values()}
    for k, n in enumerate(want):
        if n not in art["fn"] or n not in by_name or got.count(n) != 1:
            continue        # missing/duplicated functions are reported above; their companions follow suit
        d = art["fn"][n]
        e = expected_layout(by_name[n])
        for suf, cnt in d["companions"].items():
            if cnt != 1:
                report(f"{s}/{n}/companion_missing:{n}{suf}" if cnt == 0 else f"{s}/inventory/duplicated:{n}{suf}",
                       f"companion symbol {n}{suf} defined {cnt} times", data)
        if d["n_in"] != e["n_in"] or d["n_in"] != tv["nin"][k]:
            report(f"{s}/{n}/layout/n_in", f"{n}_n_in returns {d['n_in']}, symbolic function has {e['n_in']} inputs", data)
        if d["n_out"] != e["n_out"] or d["n_out"] != tv["nout"][k]:
            report(f"{s}/{n}/layout/n_out", f"{n}_n_out returns {d['n_out']}, symbolic function has {e['n_out']} outputs", data)
        for io_ in ("in", "out"):
            if d["name_" + io_] != e["name_" + io_]:
                report(f"{s}/{n}/layout/name_{io_}", f"argument names differ: C {d['name_' + io_]} vs symbolic {e['name_' + io_]}", data)
            gotsp = None if d["sparsity_" + io_] is None else {i: canon_sparsity(a) for i, a in d["sparsity_" + io_].items()}
            if gotsp != e["sparsity_" + io_]:
                report(f"{s}/{n}/layout/sparsity_{io_}", f"sparsity patterns differ: C {gotsp} vs symbolic {e['sparsity_' + io_]}", data)
        # documented effect of the flags: implementation-shaped (CasADi's behaviour) -> informational
        if d["memtable"] != tv["memtable"]:
            drift(f"{s}/shape/memtable", f"casadi_functions table present={d['memtable']}, expected {tv['memtable']}")
        if d["main"] != tv["main"]:
            drift(f"{s}/shape/main", f"main_<f> present={d['main']}, expected {tv['main']}")
        if d["mex"] != tv["mex"]:
            drift(f"{s}/shape/mex", f"mex_<f> present={d['mex']}, expected {tv['mex']}")
    if tv["cplusplus"] != any('extern "C"' in p for p in art["prefixes"]):
        drift(f"{s}/shape/cpp", f"extern \"C\" prefixes {art['prefixes']}, cpp={tv['cplusplus']}")
    if tv["export"] != any("CASADI_SYMBOL_EXPORT" in p for p in art["prefixes"]):
        drift(f"{s}/shape/export", f"CASADI_SYMBOL_EXPORT prefixes {art['prefixes']}, with_export={tv['export']}")
    if tv["mathh"] != art["has_mathh"]:
        drift(f"{s}/shape/include_math", f"#include <math.h> present={art['has_mathh']}, include_math={tv['mathh']}")
    if (art["header"] is not None) != tv["header"]:
        drift(f"{s}/shape/header", f"header present={art['header'] is not None}, with_header={tv['header']}")
    if art["header"] is not None and tv["header"]:
        hd = art["header"]["decls"]
        for n in want:
            if hd.count(n) != 1 or art["header"]["companions"].get(n, 0) != 7:
                report(f"{s}/header/{'duplicated' if hd.count(n) > 1 else 'missing'}:{n}", f"{tv['file']}.h declares '{n}' {hd.count(n)} times "
                       f"({art['header']['companions'].get(n, 0)}/7 companion declarations)", data)
        for n in dict.fromkeys(hd):
            if n not in want:
                report(f"{s}/inventory/extra:{n}", f"{tv['file']}.h declares '{n}', which is not a function of the equation set", data)


def slim(tv):
    return {k: tv[k] for k in ("set", "gen", "file", "kind", "passed", "keys", "vals", "functions") if k in tv}


# --------------------------------------------------------------------------------------
# compile + load + compare
# --------------------------------------------------------------------------------------
RE_WARN = re.compile(r"warning: .*?\[(-W[^\]]+)\]")


def compile_artifact(d, stem, tv):
    src = os.path.join(d, stem + ".c")
    so = os.path.join(d, stem + ".so")
    if tv["cplusplus"]:
        cmd = ["g++", "-x", "c++", "-Wall", "-fPIC", "-shared"]
    else:
        cmd = ["gcc", "-Wall", "-Werror=implicit-function-declaration", "-fPIC", "-shared"]
    if tv["memtable"]:
        cmd += ["-I", CASADI_INC]
    if not tv["mathh"]:
        cmd += ["-include", "math.h"]
    p = subprocess.run(cmd + [src, "-o", so, "-lm"], capture_output=True, text=True)
    res = {"rc": p.returncode, "cmd": " ".join(cmd + [stem + ".c", "-o", stem + ".so", "-lm"]),
           "warnings": sorted(set(RE_WARN.findall(p.stderr))), "errors": [l for l in p.stderr.splitlines() if "error" in l][:5],
           "so": so if p.returncode == 0 else None, "header_rc": None}
    if "warning:" in p.stderr and not res["warnings"]:
        res["warnings"] = ["(unclassified)"]
    hdr = os.path.join(d, stem + ".h")
    if os.path.exists(hdr):
        hc = (["g++", "-x", "c++"] if tv["cplusplus"] else ["gcc", "-x", "c"]) + ["-Wall", "-fsyntax-only"]
        if tv["memtable"]:
            hc += ["-I", CASADI_INC]
        q = subprocess.run(hc + [hdr], capture_output=True, text=True)
        res["header_rc"] = q.returncode
        if q.returncode != 0:
            res["errors"] += [l for l in q.stderr.splitlines() if "error" in l][:3]
        res["warnings"] = sorted(set(res["warnings"]) | {w for w in RE_WARN.findall(q.stderr) if w != "-Wpragma-once-outside-header"})
    return res


def compare_arrays(a, b):
    """-> None if equal up to ULPS and same NaN pattern, else ('nan_pattern'|'value_mismatch', detail)."""
    na, nb = np.isnan(a), np.isnan(b)
    if not np.array_equal(na, nb):
        return "nan_pattern", int(np.argmax(na != nb))
    ok = na | (a == b)
    with np.errstate(invalid="ignore", over="ignore"):
        tol = ULPS * np.spacing(np.maximum(np.abs(a), np.abs(b)))
        ok |= np.abs(a - b) <= tol
    if not ok.all():
        return "value_mismatch", int(np.argmin(ok))
    return None


def eval_compare(s, so, tv_gen, limit=None):
    """Load every function of set s from the shared object and compare with the cached symbolic results."""
    out = {"compared": 0, "functions": 0, "problems": []}
    for key, f in G["info"][s]["funcs"].items():
        n = f.name()
        inputs = G["inputs"][(s, n)]
        refs = G["refs"][(s, n)]
        try:
            fc = ca.external(n, so)
            if fc.n_in() != f.n_in() or fc.n_out() != f.n_out():
                raise RuntimeError(f"arity {fc.n_in()}->{fc.n_out()} vs {f.n_in()}->{f.n_out()}")
            for j in range(f.n_out()):
                if fc.sparsity_out(j) != f.sparsity_out(j):
                    raise RuntimeError(f"output {j} sparsity differs")
        except Exception as ex:     # noqa
            out["problems"].append((f"{s}/{n}/load_error", f"ca.external('{n}') failed: {str(ex)[-200:]}",
                                    {"kind": "eval", "tv": slim(tv_gen), "fn": n}))
            continue
        out["functions"] += 1
        bad = 0
        if limit == "patterns":     # non-default artefacts: the TLC pattern rows only (not the Alloc lattice)
            inputs = inputs[:G["npat"][(s, n)]]
        for k, (meta, args) in enumerate(inputs):
            try:
                r = fc.call([ca.DM(a) for a in args])
            except Exception as ex:     # noqa
                out["problems"].append((f"{s}/{n}/load_error", f"C function raised: {str(ex)[-200:]}",
                                        {"kind": "eval", "tv": slim(tv_gen), "fn": n, "inputs": [a.tolist() for a in args]}))
                break
            out["compared"] += 1
            for j, rj in enumerate(r):
                c = np.array(rj.nonzeros(), float)
                res = compare_arrays(c, refs[k][j])
                if res is not None and bad < 3:
                    bad += 1
                    out["problems"].append((f"{s}/{n}/{res[0]}",
                                            f"C and symbolic evaluation of output {j} ('{f.name_out(j)}') differ at nonzero {res[1]}: "
                                            f"C {c[res[1]]!r} vs symbolic {refs[k][j][res[1]]!r}",
                                            {"kind": "eval", "tv": slim(tv_gen), "fn": n, "pats": meta,
                                             "inputs": [a.tolist() for a in args]}))
    return out


def row_task(task):
    """Worker: one generator call (one option row) -> parse (+ compile + compare) -> summary; cleans up."""
    gen, passed, vals, kind, do_compile = task["gen"], task["passed"], task["vals"], task["kind"], task["compile"]
    keys = SPEC_KEYS[gen]
    opts = dict(zip(keys, vals)) if passed else {}
    sets = [s for s in SET_ORDER if SPEC_GEN[s] == gen]
    d = os.path.join(G["scratch"], "row_%s_%d_%s" % (gen, int(passed), "".join("1" if v else "0" for v in vals)))
    os.makedirs(d, exist_ok=True)
    res = {"task": {k: task[k] for k in ("gen", "passed", "vals", "kind")}, "ok": True, "error": None, "sets": {}}
    try:
        try:
            with quiet():
                G["info"][sets[0]]["call"](d, **opts)
        except Exception as ex:     # noqa
            res["ok"] = False
            res["error"] = f"{type(ex).__name__}: {(str(ex).strip().splitlines() or [''])[-1][-300:]}"
            return res
        for s in sets:
            stem = SPEC_FILE[s]
            cpath = os.path.join(d, stem + ".c")
            if not os.path.exists(cpath):
                res["sets"][s] = {"art": None, "files": sorted(os.listdir(d))}
                continue
            r = {"art": parse_artifact(cpath, os.path.join(d, stem + ".h")), "files": sorted(os.listdir(d))}
            if do_compile:
                tv = task["tvs"][s]
                r["compile"] = compile_artifact(d, stem, tv)
                if r["compile"]["so"]:
                    r["eval"] = eval_compare(s, r["compile"]["so"], tv, limit=task.get("limit"))
                    r["compile"]["so"] = True
            res["sets"][s] = r
        return res
    finally:
        shutil.rmtree(d, ignore_errors=True)


def bundle_task(tv):
    """Worker: ONE call of the generic entry point with several equation sets (TLC 'bundle' state)."""
    import cyecca.codegen as generic
    order = list(tv["order"])
    d = os.path.join(G["scratch"], "bundle_" + "_".join(s[:3] + str(len(s)) for s in order))
    os.makedirs(d, exist_ok=True)
    res = {"order": order, "ok": True, "error": None, "sets": {}}
    try:
        try:
            with quiet():
                generic.generate_code({s: dict(G["info"][s]["funcs"]) for s in order}, d)
        except Exception as ex:     # noqa
            res["ok"] = False
            res["error"] = f"{type(ex).__name__}: {(str(ex).strip().splitlines() or [''])[-1][-300:]}"
            return res
        files = sorted(os.listdir(d))
        for s in order:
            cpath = os.path.join(d, s + ".c")
            res["sets"][s] = {"files": files,
                              "art": parse_artifact(cpath, os.path.join(d, s + ".h")) if os.path.exists(cpath) else None}
        return res
    finally:
        shutil.rmtree(d, ignore_errors=True)


# --------------------------------------------------------------------------------------
# input patterns -> doubles
# --------------------------------------------------------------------------------------
CMP_OPS = (ca.OP_LT, ca.OP_LE, ca.OP_EQ, ca.OP_NE)


def conditions(f):
    """Comparison nodes of an SX function (+ which operand orders fmin/fmax/sign/fabs select) and the constants
    they compare against. Returns (Function inputs -> 0/1 vector of conditions, thresholds) or (None, [])."""
    if f.n_in() == 0:
        return None, []
    try:
        fs = f if f.is_a("SXFunction") else f.expand()
        sxin = fs.sx_in()
        outs = fs.call(sxin)
    except Exception:   # noqa
        return None, []
    seen, stack, conds, consts = set(), [], [], set()
    for o in outs:
        if isinstance(o, ca.SX):
            stack += [o.nz[k] for k in range(o.nnz())]
    while stack:
        e = stack.pop()
        if e.is_constant() or e.is_symbolic():
            continue
        h = e.element_hash()
        if h in seen:
            continue
        seen.add(h)
        op = e.op()
        if op in CMP_OPS:
            conds.append(e)
            for i in range(e.n_dep()):
                if e.dep(i).is_constant():
                    consts.add(abs(float(e.dep(i))))
        elif op in (ca.OP_FMIN, ca.OP_FMAX):
            conds.append(e.dep(0) < e.dep(1))
        elif op in (ca.OP_SIGN, ca.OP_FABS):
            conds.append(e.dep(0) < 0)
        for i in range(e.n_dep()):
            stack.append(e.dep(i))
    if not conds:
        return None, sorted(consts)
    return ca.Function("conds", sxin, [ca.vertcat(*conds)]), sorted(c for c in consts if np.isfinite(c))


def switch_magnitudes(thr):
    base = sorted({c for c in thr if 0 < c < 1e6} | {1e-3})
    out = []
    for c in base:
        r = float(np.sqrt(c))
        out += [c, float(np.nextafter(c, 0)), float(np.nextafter(c, np.inf)), r, float(np.nextafter(r, 0)),
                float(np.nextafter(r, np.inf)), c / 2, c * 2, 2 * c - c / 4]
    return out


def int_quat(rng, wsign):
    while True:
        q = rng.integers(-3, 4, size=4).astype(float)
        if q[0] != 0 and (q @ q) > 0:
            break
    q[0] = abs(q[0]) * wsign
    return q / np.sqrt(q @ q)


def quat_dcm(q):
    w, x, y, z = q
    return np.array([[1 - 2 * (y * y + z * z), 2 * (x * y - w * z), 2 * (x * z + w * y)],
                     [2 * (x * y + w * z), 1 - 2 * (x * x + z * z), 2 * (y * z - w * x)],
                     [2 * (x * z - w * y), 2 * (y * z + w * x), 1 - 2 * (x * x + y * y)]])


def gen_arg(shape, pat, rng, v, argidx, mags):
    r, c = shape
    m = r * c
    x = np.zeros(m)
    if m == 0:
        return x.reshape(r, c)

    def dyad(n):
        k = rng.integers(-128, 129, size=n)
        k[k == 0] = 1
        return k / 64.0
    k = int((v + argidx) % m)
    sgn = 1.0 if rng.integers(2) else -1.0
    if pat == "zero":
        pass
    elif pat == "unit":
        x[k] = 1.0
    elif pat == "negunit":
        x[k] = -1.0
    elif pat == "generic":
        x = dyad(m)
    elif pat == "neg":
        x = -np.abs(dyad(m))
    elif pat == "tiny":
        mag = (2.0 ** -30, 2.0 ** -20, 2.0 ** -12, 2.0 ** -11)[int(rng.integers(4))]
        if rng.integers(2):
            x[k] = sgn * mag
        else:
            x = mag * dyad(m)
    elif pat == "switch":
        mag = mags[int(rng.integers(len(mags)))]
        if m == 4:      # rotation by the angle `mag` about a coordinate axis, as a unit quaternion
            x[0] = np.cos(mag / 2)
            x[1 + k % 3] = sgn * np.sin(mag / 2)
        else:
            x[k] = sgn * mag
    elif pat == "big":
        mag = (10.0, 1e3, 1e6)[int(rng.integers(3))]
        if rng.integers(2):
            x[k] = sgn * mag
        else:
            x = mag * np.sign(dyad(m))
    elif pat == "grav":     # vectors of gravity magnitude (9.8 +- 1 is the estimator's acceptance window)
        mag = (9.8, 9.8, 9.0, 8.8, 10.8, float(np.nextafter(8.8, 0)), float(np.nextafter(10.8, 99)))[int(rng.integers(7))]
        if rng.integers(2) or m == 1:
            x[k] = sgn * mag
        else:
            dd = dyad(m)
            x = mag * dd / np.sqrt(dd @ dd)
    elif pat in ("posrot", "negrot"):
        pos = pat == "posrot"
        if m == 4:
            x = int_quat(rng, 1.0 if pos else -1.0) if v else np.array([1.0 if pos else -1.0, 0, 0, 0])
        elif m == 3:
            x = dyad(3) / 8 if pos else dyad(3) * 2          # MRP / rotation vector inside / outside the unit ball
        elif m == 6:
            x = np.concatenate([dyad(3) / 8 if pos else dyad(3) * 2, dyad(3) / 16])
        elif m == 9:
            q = int_quat(rng, 1.0)
            if not pos:                                      # 180-degree rotations: trace -1, other Shepperd branches
                q = np.zeros(4)
                q[1 + k % 3] = 1.0
                if v % 2:
                    q[1 + (k + 1) % 3] = 1.0
                    q /= np.sqrt(2.0)
            x = quat_dcm(q).flatten(order="F")
        elif m == 10:
            x = np.concatenate([dyad(6), int_quat(rng, 1.0 if pos else -1.0)])
        else:
            x = np.abs(dyad(m)) if pos else -np.abs(dyad(m))
    else:
        raise MachineryError(f"unknown input pattern {pat}")
    return np.asarray(x, float).reshape((r, c), order="F")


def alloc_inputs(run, tier):
    """control_allocation inputs on the exact tie/saturation cells of spec/Alloc.tla (C13's lattice)."""
    res = run_tlc("Alloc.tla", f"Codegen_alloc_{tier}.cfg", workdir=run.workdir, dump=True)
    run.add_tlc("Alloc(inputs)", res)
    outs, cells = [], {}
    for st in parse_dump(res["dump"]):
        tv = st["tv"]
        if tv["fn"] == "seed":
            continue
        cell = tuple(tv["cell"])
        cells[cell] = cells.get(cell, 0) + 1
        l, cm = tv["geo"][0] / 16.0, tv["geo"][1] / 16.0
        M = np.array([4 * l * tv["m"][0], 4 * l * tv["m"][1], 4 * cm * tv["m"][2]], float).reshape(3, 1)
        for ct in (2.0 ** -17, 1.0):
            outs.append(({"alloc_cell": list(cell), "FM": tv["FM"], "geo": list(tv["geo"]), "t": tv["t"], "m": list(tv["m"]), "Ct": ct},
                         [np.array([[float(tv["FM"])]]), np.array([[l]]), np.array([[cm]]), np.array([[ct]]),
                          np.array([[4.0 * tv["t"]]]), M]))
    need = {(1, 1), (1, -1), (-1, 1), (-1, -1), (0, 0), (0, 1), (1, 0)}
    if not need <= set(cells):
        raise MachineryError(f"vacuous coverage: allocation cells never reached: {need - set(cells)}")
    return outs, {f"{c[0]},{c[1]}": n for c, n in sorted(cells.items())}


def build_inputs(run, info, eval_states, tier, extra):
    """eval states -> concrete inputs; symbolic reference results; condition coverage."""
    nvar = 3 if tier == "quick" else 6
    G["inputs"], G["refs"] = {}, {}
    cov = {}
    by_fn = {}
    for tv in eval_states:
        by_fn.setdefault((tv["set"], tv["fn"]), []).append(tv)
    for s in SET_ORDER:
        for key, f in info[s]["funcs"].items():
            n = f.name()
            rows = sorted(by_fn.get((s, n), []), key=lambda t: t["pats"])
            if not rows:
                raise MachineryError(f"vacuous coverage: TLC produced no input rows for {s}/{n}")
            cf, thr = conditions(f)
            mags = switch_magnitudes(thr)
            ins = []
            for tv in rows:
                for v in range(nvar if f.n_in() else 1):
                    args = []
                    for i in range(f.n_in()):
                        rng = np.random.default_rng(zlib.crc32(f"{s}/{n}/{i}/{tv['pats']}/{v}/{run.seed}".encode()))
                        args.append(gen_arg(f.size_in(i), tv["pats"][i], rng, v, i, mags))
                    ins.append(({"pats": list(tv["pats"]), "variant": v}, args))
            G.setdefault("npat", {})[(s, n)] = len(ins)
            ins += extra.get((s, n), [])
            refs, seen_t, seen_f = [], None, None
            distinct, nonfinite = set(), 0
            for meta, args in ins:
                dm = [ca.DM(a) for a in args]
                r = [np.array(o.nonzeros(), float) for o in f.call(dm)]
                refs.append(r)
                flat = np.concatenate(r) if r else np.zeros(0)
                distinct.add(flat.tobytes())
                nonfinite += int(not np.all(np.isfinite(flat)))
                if cf is not None:
                    cv = np.array(cf.call(dm)[0]).flatten() != 0
                    seen_t = cv.copy() if seen_t is None else (seen_t | cv)
                    seen_f = (~cv) if seen_f is None else (seen_f | ~cv)
            G["inputs"][(s, n)] = ins
            G["refs"][(s, n)] = refs
            nc = 0 if cf is None else int(seen_t.size)
            both = 0 if cf is None else int(np.sum(seen_t & seen_f))
            cov[f"{s}/{n}"] = {"inputs": len(ins), "distinct_outputs": len(distinct), "nonfinite_outputs": nonfinite,
                               "conditions": nc, "conditions_both_ways": both, "thresholds": thr[:8]}
            run.count("symbolic_evaluations", len(ins))
    return cov


# --------------------------------------------------------------------------------------
# verdicts
# --------------------------------------------------------------------------------------
def judge_generation(run, gen_states, results):
    """Generation success per option row, with attribution of failures to option values."""
    by_gen = {}
    for key, r in results.items():
        by_gen.setdefault(key[0], []).append(r)
    culprits = {}
    for g_, rs in by_gen.items():
        keys = SPEC_KEYS[g_]
        explicit = [r for r in rs if r["task"]["passed"]]
        cs = []
        for i, k in enumerate(keys):
            for val in (True, False):
                sel = [r for r in explicit if r["task"]["vals"][i] == val]
                if sel and all(not r["ok"] for r in sel):
                    cs.append((i, k, val))
        culprits[g_] = cs
    for tv in gen_states:
        r = results[(tv["gen"], tv["passed"], tuple(tv["vals"]))]
        if r["ok"]:
            continue
        s = tv["set"]
        data = {"kind": "generate", "tv": slim(tv), "error": r["error"]}
        opts = dict(zip(tv["keys"], tv["vals"]))
        if not tv["passed"]:
            run.violation(f"{s}/generate/raises/default",
                          f"generator '{tv['gen']}' fails when called with its default options: {r['error']}", data)
            continue
        hit = [(k, val) for i, k, val in culprits[tv["gen"]] if tv["vals"][i] == val]
        if hit:
            for k, val in hit:
                run.violation(f"{s}/generate/raises/{k}",
                              f"generator '{tv['gen']}' fails for every option row with {k}={val}: {r['error']}",
                              data if (tv["kind"] in ("toggle", "default")) else {**data, "note": "non-minimal row"})
        else:
            bits = "".join("1" if v else "0" for v in tv["vals"])
            run.violation(f"{s}/generate/raises/row:{bits}", f"generator '{tv['gen']}' fails for {opts}: {r['error']}", data)
    return culprits


def judge_compile(run, s, tv, comp):
    data = {"kind": "generate", "tv": slim(tv), "cmd": comp["cmd"], "errors": comp["errors"], "warnings": comp["warnings"]}
    if comp["rc"] != 0 or comp["errors"] or (comp["header_rc"] not in (None, 0)):
        run.violation(f"{s}/compile/error", f"{tv['file']}.c/.h does not compile ({comp['cmd']}): {comp['errors'][:2]}", data)
    for w in comp["warnings"]:
        if w.startswith("-Wunused"):
            run.count("tolerated_warning:" + w.rstrip("="))
        else:
            run.violation(f"{s}/compile/warning:{w}", f"gcc -Wall warns {w} on {tv['file']}.c", data)


def replay(run, info, path):
    d = json.load(open(path))["data"]
    scratch = G["scratch"]
    if d.get("kind") in ("main", "export"):
        print("replay: this finding is re-evaluated by the extraction step (already done above)")
        return run.finish({"traces_validated_against_impl": 1, "programs": 0, "disagreements_checked": 1})
    if d.get("kind") == "bundle":
        order = d["order"]
        r = bundle_task({"order": order})
        n = 0
        if not r["ok"]:
            run.violation(f"{order[0]}/generate/raises/bundle", f"generic generate_code fails on {'>'.join(order)}: {r['error']}", d)
        else:
            for t in order:
                fb = info[t]["funcs"]
                ftv = {"set": t, "file": t, "functions": [f.name() for f in fb.values()], "nin": [f.n_in() for f in fb.values()],
                       "nout": [f.n_out() for f in fb.values()], "header": True, "memtable": False, "main": False, "mex": False,
                       "cplusplus": False, "export": False, "mathh": True, "kind": "bundle", "gen": "generic", "passed": False,
                       "keys": [], "vals": []}
                if r["sets"][t]["art"] is None:
                    run.violation(f"{t}/inventory/missing:*", f"no {t}.c written", d)
                else:
                    n += 1
                    check_artifact(ftv, r["sets"][t]["art"], fb, lambda k, w, d_: run.violation(k, w, {**d_, "kind": "bundle", "order": order}),
                                   lambda *a: None)
        return run.finish({"traces_validated_against_impl": 1, "programs": n, "disagreements_checked": n, "replayed": path})
    tv0 = d["tv"]
    s = tv0["set"]
    f_by = info[s]["funcs"]
    full = {**tv0, "nin": [f.n_in() for f in f_by.values()], "nout": [f.n_out() for f in f_by.values()]}
    opts = dict(zip(tv0["keys"], tv0["vals"]))

    def o(k, casadi_default):
        return opts.get(k, casadi_default)
    full.update(header=o("with_header", True), memtable=o("with_mem", False), main=o("main", False), mex=o("mex", False),
                cplusplus=o("cpp", False), export=o("with_export", True), mathh=o("include_math", True))
    G["inputs"] = {(t, f.name()): [] for t in SET_ORDER for f in info[t]["funcs"].values()}
    G["refs"] = {(t, f.name()): [] for t in SET_ORDER for f in info[t]["funcs"].values()}
    if d.get("kind") == "eval":
        f = {f.name(): f for f in f_by.values()}[d["fn"]]
        args = [np.array(a, float).reshape(f.size_in(i), order="C") for i, a in enumerate(d["inputs"])] if "inputs" in d else None
        if args is not None:
            G["inputs"][(s, d["fn"])] = [(d.get("pats"), args)]
            G["refs"][(s, d["fn"])] = [[np.array(x.nonzeros(), float) for x in f.call([ca.DM(a) for a in args])]]
    task = {"gen": tv0["gen"], "passed": tv0["passed"], "vals": tuple(tv0["vals"]), "kind": tv0["kind"], "compile": True,
            "tvs": {t: {**full, "set": t, "file": SPEC_FILE[t]} for t in SET_ORDER if SPEC_GEN[t] == tv0["gen"]}}
    r = row_task(task)
    results = {(tv0["gen"], tv0["passed"], tuple(tv0["vals"])): r}
    judge_generation(run, [full], results)
    n = 0
    if r["ok"]:
        rs = r["sets"][s]
        if rs["art"] is None:
            run.violation(f"{s}/inventory/missing:*", f"no {full['file']}.c written", {"kind": "generate", "tv": slim(full)})
        else:
            check_artifact(full, rs["art"], f_by, run.violation, run.spec_drift)
            judge_compile(run, s, full, rs["compile"])
            for key, what, data in rs.get("eval", {}).get("problems", []):
                run.violation(key, what, data)
            n = rs.get("eval", {}).get("compared", 0)
    return run.finish({"traces_validated_against_impl": 1, "programs": len(f_by), "disagreements_checked": n, "replayed": path})


def _snapshot(d):
    out = {}
    for fn in sorted(os.listdir(d)):
        pth = os.path.join(d, fn)
        if os.path.isdir(pth):          # a generator that writes into a nested directory: part of what it left behind
            out[fn + "/"] = repr(sorted(os.listdir(pth))).encode()
            continue
        with open(pth, "rb") as fh:
            out[fn] = fh.read()
    return out


def sequence_check(run, info, defaults):
    """histories of generator calls in ONE process: default options, then every single-option toggle, then
    default options again -- the two default artefacts must be byte-identical (the option combination of a
    call must not depend on earlier calls: 'every accepted generator option combination' includes the
    default one after any other).  Found missing by a seeded change that shared one mutable option dict."""
    seen = set()
    n = 0
    for s in SET_ORDER:
        gen = SPEC_GEN[s]
        if gen in seen:
            continue
        seen.add(gen)
        call = info[s]["call"]
        base = os.path.join(G["scratch"], "seq_" + gen)
        try:
            d1 = os.path.join(base, "first"); os.makedirs(d1)
            with quiet():
                call(d1)
            first = _snapshot(d1)
            for k, v in defaults[gen].items():
                dk = os.path.join(base, "t_" + k); os.makedirs(dk)
                part = None
                try:
                    with quiet():
                        call(dk, **{k: (not v)})
                    part = _snapshot(dk)
                except Exception:       # noqa: failing rows are judged by the row checks
                    pass
                n += 1
                # the same option combination given in full: an option that is left out means the generator's own default
                dt_ = os.path.join(base, "f_" + k); os.makedirs(dt_)
                full = None
                try:
                    with quiet():
                        call(dt_, **{**defaults[gen], k: (not v)})
                    full = _snapshot(dt_)
                except Exception:       # noqa
                    pass
                n += 1
                if (part is None) != (full is None):
                    run.violation(f"{s}/generate/partial_options/{k}", f"passing only {k}={not v} {'fails' if part is None else 'succeeds'} while the same "
                                  f"combination with every option spelled out {'succeeds' if part is None else 'fails'}", {"kind": "sequence", "set": s, "option": k})
                elif part is not None and part != full:
                    diff = sorted(set(part) ^ set(full)) or [f for f in part if part[f] != full.get(f)]
                    run.violation(f"{s}/generate/partial_options/{k}", f"passing only {k}={not v} produces a different artefact than the same combination with "
                                  f"every option spelled out: options left out do not keep the generator's defaults (differs: {diff[:4]})",
                                  {"kind": "sequence", "set": s, "option": k, "files_partial": sorted(part), "files_full": sorted(full)})
            d2 = os.path.join(base, "again"); os.makedirs(d2)
            with quiet():
                call(d2)
            again = _snapshot(d2)
            if first != again:
                diff = sorted(set(first) ^ set(again)) or [f for f in first if first[f] != again.get(f)]
                run.violation(f"{s}/generate/state_leak", "a call with default options produces a different artefact after calls with "
                              f"other options in the same process (differs: {diff[:4]})",
                              {"kind": "sequence", "set": s, "files_first": sorted(first), "files_again": sorted(again)})
        except Exception as ex:     # noqa
            run.violation(f"{s}/generate/raises/default_in_sequence", f"{type(ex).__name__}: {ex}", {"kind": "sequence", "set": s})
        finally:
            shutil.rmtree(base, ignore_errors=True)
    run.count("sequence_calls", n)


def destination_check(run, info):
    """where and into what the generators write (the artefact must not depend on it):
       (a) a RELATIVE destination directory gives the same files as an absolute one (every set of a multi-set call
           lands in the requested directory);
       (b) generating into a directory that already holds an earlier result gives what a fresh directory gets:
           more sets than before, and the same set again with an option that only affects the header."""
    import cyecca.codegen as generic
    base = os.path.join(G["scratch"], "dest")
    os.makedirs(base, exist_ok=True)

    def same(key, what, got_dir, fresh_dir, data):
        got, fresh = _snapshot(got_dir) if os.path.isdir(got_dir) else {}, _snapshot(fresh_dir)
        run.count("destination_comparisons")
        miss = sorted(f for f in fresh if f not in got)
        diff = sorted(f for f in fresh if f in got and got[f] != fresh[f])
        if miss or diff:
            run.violation(key, what + f" (missing: {miss[:6]}, different: {diff[:6]})", {**data, "kind": "main", "files": sorted(got), "files_fresh": sorted(fresh)})
    calls = {"attitude": info["estimator"]["call"], "rdd2": info["rdd2"]["call"], "rdd2_loglinear": info["rdd2_loglinear"]["call"],
             "bezier": info["bezier"]["call"],
             "generic": lambda d, **o: generic.generate_code({s: dict(info[s]["funcs"]) for s in ("rdd2_loglinear", "bezier", "mr_ref_traj")}, d, **o)}
    first_set = {"attitude": "estimator", "generic": "rdd2_loglinear"}
    cwd = os.getcwd()
    for g_, call in calls.items():
        s = first_set.get(g_, g_)
        fresh = os.path.join(base, "abs_" + g_); os.makedirs(fresh)
        try:
            with quiet():
                call(fresh)
        except Exception:       # noqa: judged by the row checks
            continue
        rel_root = os.path.join(base, "cwd_" + g_); os.makedirs(rel_root)
        try:
            os.chdir(rel_root)
            with quiet():
                call("code")
        except Exception as ex:     # noqa
            run.violation(f"{s}/generate/raises/relative_dest_dir", f"{type(ex).__name__}: {ex}", {"kind": "main", "set": s})
            continue
        finally:
            os.chdir(cwd)
        same(f"{s}/generate/relative_dest_dir", "with a relative destination directory not every file of the call lands in that directory",
             os.path.join(rel_root, "code"), fresh, {"set": s, "generator": g_})
    # (b) regeneration into a used directory, generic entry point
    try:
        d = os.path.join(base, "regen"); os.makedirs(d)
        fresh = os.path.join(base, "regen_fresh"); os.makedirs(fresh)
        three = {s: dict(info[s]["funcs"]) for s in ("bezier", "rdd2_loglinear", "mr_ref_traj")}
        with quiet():
            generic.generate_code({"bezier": three["bezier"]}, d)
            generic.generate_code(three, d)
            generic.generate_code(three, fresh)
        same("rdd2_loglinear/generate/into_used_directory", "generating three sets into a directory that already held the first one does not give what a "
             "fresh directory gets", d, fresh, {"set": "rdd2_loglinear"})
        d2 = os.path.join(base, "regen_hdr"); os.makedirs(d2)
        fresh2 = os.path.join(base, "regen_hdr_fresh"); os.makedirs(fresh2)
        with quiet():
            generic.generate_code({"bezier": three["bezier"]}, d2, with_header=False)
            generic.generate_code({"bezier": three["bezier"]}, d2)
            generic.generate_code({"bezier": three["bezier"]}, fresh2)
        same("bezier/generate/into_used_directory/with_header", "generating with default options into a directory written before with with_header=False does "
             "not give what a fresh directory gets", d2, fresh2, {"set": "bezier"})
    except Exception as ex:     # noqa
        run.violation("bezier/generate/raises/into_used_directory", f"{type(ex).__name__}: {ex}", {"kind": "main", "set": "bezier"})
    shutil.rmtree(base, ignore_errors=True)


def _first_call_child(gen, opt, val, base):
    """fresh interpreter: ONE call with a single option toggled (or none), then a call with default options; prints the
    sha1 of every file of the default call.  What the first call of a process leaves behind (a probe cached at module level,
    a default dict updated in place) shows in the second."""
    import hashlib
    with quiet():
        if gen == "attitude":
            from cyecca.estimate.attitude import algorithms
            eqs = algorithms.eqs()
            call = lambda d, **o: algorithms.generate_code(eqs, d, **o)
        elif gen == "generic":
            from cyecca.models import mr_ref_traj
            import cyecca.codegen as generic
            ref = mr_ref_traj.derive_mr_ref_traj()
            call = lambda d, **o: generic.generate_code({"mr_ref_traj": ref}, d, **o)
        else:
            mod = importlib.import_module(MODEL_MODULES[gen])
            defined, called, filename = main_block_info(MODEL_MODULES[gen])
            eqs = {}
            for n in (called or defined):
                eqs.update(getattr(mod, n)())
            call = lambda d, **o: mod.generate_code(eqs, filename=(filename or gen + ".c"), dest_dir=d, **o)
    out = {"first_error": None, "default_error": None, "files": {}}
    d1 = os.path.join(base, "one"); d2 = os.path.join(base, "two")
    os.makedirs(d1); os.makedirs(d2)
    if opt != "-":
        try:
            with quiet():
                call(d1, **{opt: (val == "1")})
        except Exception as ex:     # noqa: a refused combination is judged by the row checks
            out["first_error"] = f"{type(ex).__name__}: {str(ex)[-200:]}"
    try:
        with quiet():
            call(d2)
        for fn in sorted(os.listdir(d2)):
            with open(os.path.join(d2, fn), "rb") as fh:
                out["files"][fn] = hashlib.sha1(fh.read()).hexdigest()
    except Exception as ex:     # noqa
        out["default_error"] = f"{type(ex).__name__}: {(str(ex).strip().splitlines() or [''])[-1][-300:]}"
    print("FIRSTCALL " + json.dumps(out))


def first_call_histories(run, defaults, tier):
    """spec/Codegen.tla FirstCalls: for every generator and every option, a FRESH process whose first call toggles that
    option and whose second call uses the defaults -- the default artefact must be the one of a process that only made
    the default call (sequence_check starts every history with a default call; a state that the FIRST call sets up is
    invisible there)."""
    import subprocess
    import concurrent.futures as cf
    jobs = []
    for gen, dflt in defaults.items():
        gen_ = gen
        if gen_ not in ("attitude", "generic") and gen_ not in MODEL_MODULES:
            continue
        jobs.append((gen_, "-", "0"))
        for k, v in dflt.items():
            jobs.append((gen_, k, "0" if v else "1"))

    def one(job):
        base = tempfile.mkdtemp(prefix="fc_", dir=G["scratch"])
        p = subprocess.run([sys.executable, "-m", "harness.checks.c09", "--first-call", job[0], job[1], job[2], base], capture_output=True, text=True,
                           env=dict(os.environ), cwd="/verif", timeout=900)
        shutil.rmtree(base, ignore_errors=True)
        for ln in p.stdout.splitlines():
            if ln.startswith("FIRSTCALL "):
                return json.loads(ln[len("FIRSTCALL "):])
        raise MachineryError(f"first-call history {job} did not run: {p.stderr[-400:]}")
    with cf.ThreadPoolExecutor(12) as ex:
        res = dict(zip(jobs, ex.map(one, jobs)))
    n = 0
    for (gen, k, v), r in res.items():
        if k == "-":
            continue
        ref = res[(gen, "-", "0")]
        n += 1
        sname = {"attitude": "estimator", "generic": "mr_ref_traj"}.get(gen, gen)
        if ref["default_error"] is None and r["default_error"] is not None:
            run.violation(f"{sname}/generate/raises/default_after_first_call:{k}", f"in a fresh process a call with {k}={v == '1'} followed by a call with "
                          f"default options: the default call fails ({r['default_error']}); alone it succeeds",
                          {"kind": "sequence", "set": sname, "option": k, "first_call_error": r["first_error"]})
        elif ref["default_error"] is None and r["files"] != ref["files"]:
            diff = sorted(set(r["files"]) ^ set(ref["files"])) or [f for f in r["files"] if r["files"][f] != ref["files"].get(f)]
            run.violation(f"{sname}/generate/state_leak/first_call:{k}", f"in a fresh process the default artefact written AFTER a first call with {k}={v == '1'} "
                          f"differs from the default artefact of a process that made only the default call (differs: {diff[:4]})",
                          {"kind": "sequence", "set": sname, "option": k})
    run.count("first_call_histories", n)
    if n < 8:
        raise MachineryError(f"first-call histories: only {n} ran")


def main():
    if "--first-call" in sys.argv:
        i = sys.argv.index("--first-call")
        return _first_call_child(*sys.argv[i + 1:i + 5])
    tier = sys.argv[1] if len(sys.argv) > 1 else "quick"
    run = Run(PID, tier, level="translation_validation")
    scratch = os.path.join(run.workdir, "gen")
    os.makedirs(scratch, exist_ok=True)
    G["scratch"] = scratch
    info, defaults = extract(run, scratch)
    G["info"] = info
    if "--replay" in sys.argv:
        rp = sys.argv[sys.argv.index("--replay") + 1]
        if json.load(open(rp))["data"].get("kind") not in ("main", "export"):
            return replay(run, info, rp)
        print("replay: findings about the shipped entry points are re-evaluated by the full check")
    sequence_check(run, info, defaults)
    first_call_histories(run, defaults, tier)
    destination_check(run, info)

    # ---- TLC on the configuration model, instantiated with the repository's export lists
    mc = write_mc(info, defaults, run.workdir)
    res = run_tlc(mc, f"Codegen_{tier}.cfg", workdir=run.workdir, dump=True, allow_violation=True,
                  jvm=["-DTLA-Library=" + SPEC], extra=["-continue"])
    run.add_tlc("Codegen", res)
    if res["violated"]:
        if res["violated"] != "NoDuplicate":
            raise MachineryError(f"Codegen spec: invariant {res['violated']} violated:\n" + "\n".join(res["out"].splitlines()[-40:]))
        for s in SET_ORDER:
            names = [f.name() for f in info[s]["funcs"].values()]
            for n in sorted({n for n in names if names.count(n) > 1}):
                run.violation(f"{s}/inventory/duplicated:{n}",
                              f"TLC: invariant NoDuplicate violated -- {names.count(n)} exported functions of set '{s}' carry the "
                              f"CasADi name '{n}' (one C file cannot define the symbol twice)", {"kind": "export", "set": s, "name": n})
    gen_states, eval_states, bundle_states = [], [], []
    for st in parse_dump(res["dump"]):
        tv = st["tv"]
        if tv["op"] == "bundle":
            bundle_states.append(tv)
        elif tv["op"] == "generate":
            gen_states.append(tv)
        elif tv["op"] == "eval":
            eval_states.append(tv)
    if not gen_states or not eval_states or not bundle_states:
        raise MachineryError("vacuous coverage: TLC produced no generate/eval/bundle states")
    for tv in gen_states:
        if tuple(tv["keys"]) != SPEC_KEYS[tv["gen"]] or SPEC_FILE[tv["set"]] != tv["file"] or SPEC_GEN[tv["set"]] != tv["gen"]:
            raise MachineryError(f"harness adapter table and spec disagree on {tv['set']}: {tv['keys']} {tv['file']} {tv['gen']}")
        for sh in sorted(tv["shared"]):
            run.spec_drift(f"{tv['set']}/shared_symbol:{sh}",
                           f"C symbol '{sh}' is also defined by another file written by the same generator call "
                           f"({sorted(tv['cofiles'])}): the two files cannot be linked into one image")

    # ---- inputs (patterns -> doubles), symbolic references, condition coverage
    extra = {}
    alloc_cells = None
    names_rdd2 = [f.name() for f in info["rdd2"]["funcs"].values()]
    if "control_allocation" in names_rdd2:
        al, alloc_cells = alloc_inputs(run, tier)
        step = max(1, len(al) // (20000 if tier == "thorough" else 3000))
        extra[("rdd2", "control_allocation")] = al[::step]
    cov = build_inputs(run, info, eval_states, tier, extra)

    # ---- one task per (generator, option row)
    compile_kinds = {"implicit_default", "default", "toggle"} | ({"pairwise"} if tier == "thorough" else set())
    tasks = {}
    for tv in gen_states:
        key = (tv["gen"], tv["passed"], tuple(tv["vals"]))
        t = tasks.setdefault(key, {"gen": tv["gen"], "passed": tv["passed"], "vals": tuple(tv["vals"]), "kind": tv["kind"],
                                   "compile": tv["kind"] in compile_kinds, "tvs": {},
                                   "limit": None if tv["kind"] in ("implicit_default", "default") else "patterns"})
        t["tvs"][tv["set"]] = tv
    order = sorted(tasks, key=lambda k: (not tasks[k]["compile"], k))
    if NPROC > 1:
        ctx = multiprocessing.get_context("fork")
        with ctx.Pool(NPROC) as pool:
            out = pool.map(row_task, [tasks[k] for k in order], chunksize=1 if tier == "quick" else 4)
            bout = pool.map(bundle_task, bundle_states, chunksize=1)
    else:
        out = [row_task(tasks[k]) for k in order]
        bout = [bundle_task(tv) for tv in bundle_states]
    results = dict(zip(order, out))

    # ---- verdicts
    culprits = judge_generation(run, gen_states, results)
    n_art = n_comp = n_cmp = 0
    progs = set()
    per_set = {s: {"rows": 0, "generated": 0, "compiled": 0, "compared_artifacts": 0} for s in SET_ORDER}
    for tv in gen_states:
        s = tv["set"]
        r = results[(tv["gen"], tv["passed"], tuple(tv["vals"]))]
        per_set[s]["rows"] += 1
        if not r["ok"]:
            continue
        rs = r["sets"].get(s)
        if rs is None or rs["art"] is None:
            run.violation(f"{s}/inventory/missing:*", f"generator call succeeded but wrote no {tv['file']}.c "
                          f"(files: {rs and rs['files']})", {"kind": "generate", "tv": slim(tv)})
            continue
        per_set[s]["generated"] += 1
        n_art += 1
        check_artifact(tv, rs["art"], info[s]["funcs"], run.violation, run.spec_drift)
        if n_art % 97 == 1:
            run.sample({"set": s, "options": dict(zip(tv["keys"], tv["vals"])) if tv["passed"] else "(none passed)",
                        "expected_functions": list(tv["functions"]), "emitted": rs["art"]["defs"], "bytes": rs["art"]["bytes"]})
        if "compile" in rs:
            n_comp += 1
            per_set[s]["compiled"] += int(rs["compile"]["rc"] == 0)
            judge_compile(run, s, tv, rs["compile"])
            ev = rs.get("eval")
            if ev:
                n_cmp += ev["compared"]
                per_set[s]["compared_artifacts"] += 1
                for key, what, data in ev["problems"]:
                    run.violation(key, what, data)
                if ev["functions"] == len(info[s]["funcs"]):
                    progs |= {(s, f.name()) for f in info[s]["funcs"].values()}
    # every shipped command-line entry point run into ONE output directory (what a user generating all the C code does):
    # afterwards each set's own file must still hold that set's complete inventory
    mods = [s for s in MODEL_MODULES if info[s]["main_artifact"] is not None]
    orders = [("fwd", list(mods)), ("rev", list(reversed(mods)))]
    if tier == "thorough":
        orders += [(f"rot{r}", mods[r:] + mods[:r]) for r in range(1, len(mods))] + [(f"rotrev{r}", list(reversed(mods[r:] + mods[:r]))) for r in range(1, len(mods))]
    ran_total = 0
    for oname, order in orders:             # spec/Codegen.tla SharedDirOrders: every ordered pair of entry points occurs in both orders
        shared = os.path.join(scratch, "main_shared_" + oname)
        os.makedirs(shared, exist_ok=True)
        ran = []
        for s in order:
            argv = sys.argv
            try:
                sys.argv = [info[s]["modname"], shared]
                with quiet():
                    runpy.run_module(info[s]["modname"], run_name="__main__")
                ran.append(s)
            except SystemExit as ex:
                if ex.code in (None, 0):
                    ran.append(s)
            except BaseException:       # noqa: already reported by the extraction step
                pass
            finally:
                sys.argv = argv
        for s in ran:
            stem = info[s]["main_stem"]
            tvd = next(t for t in gen_states if t["set"] == s and not t["passed"])
            cpath = os.path.join(shared, stem + ".c")
            if not os.path.exists(cpath):
                run.violation(f"{s}/inventory/missing:*", f"after running every entry point into one directory (order {order}) {stem}.c does not exist "
                              f"(files: {sorted(os.listdir(shared))})", {"kind": "main", "set": s, "order": order})
                continue
            art = parse_artifact(cpath, os.path.join(shared, stem + ".h"))
            check_artifact({**tvd, "kind": "__main__/shared_dir", "file": stem}, art, info[s]["funcs"],
                           lambda k, w, d_: run.violation(k, w + f" [all entry points run into one output directory, order {order}]", {**d_, "kind": "main", "set": s}),
                           run.spec_drift)
            n_art += 1
        ran_total += len(ran)
    ran = list(range(ran_total))
    run.count("shared_directory_artifacts", len(ran))
    # the artefact written by the module's own __main__ (python -m cyecca.models.<m> <dir>)
    for s in MODEL_MODULES:
        d = info[s]["main_artifact"]
        if d:
            tvd = next(t for t in gen_states if t["set"] == s and not t["passed"])
            stem_ = info[s]["main_stem"]
            art = parse_artifact(os.path.join(d, stem_ + ".c"), os.path.join(d, stem_ + ".h"))
            tvd = {**tvd, "file": stem_}
            check_artifact({**tvd, "kind": "__main__"}, art, info[s]["funcs"], run.violation, run.spec_drift)
            n_art += 1

    # ---- bundles: one call of the generic entry point with several sets; file <key>.c must hold exactly <key>'s functions
    n_bundle = 0
    for tv, r in zip(bundle_states, bout):
        tag = ">".join(tv["order"])
        if not r["ok"]:
            run.violation(f"{tv['order'][0]}/generate/raises/bundle", f"generic generate_code fails on the set dictionary {tag}: {r['error']}",
                          {"kind": "bundle", "order": list(tv["order"]), "error": r["error"]})
            continue
        for ftv in tv["files"]:
            s = ftv["set"]
            rs = r["sets"].get(s)
            if rs is None or rs["art"] is None:
                run.violation(f"{s}/inventory/missing:*", f"generic generate_code({tag}) wrote no {s}.c (files: {rs and rs['files']})",
                              {"kind": "bundle", "order": list(tv["order"])})
                continue
            n_bundle += 1
            n_art += 1
            check_artifact(ftv, rs["art"], info[s]["funcs"],
                           lambda k, w, d_, _o=list(tv["order"]): run.violation(k, w + f" [bundle {'>'.join(_o)}]", {**d_, "kind": "bundle", "order": _o}),
                           run.spec_drift)
    if n_bundle == 0 and not any("/bundle" in k or "inventory" in k for k in run.viol):
        raise MachineryError("vacuous coverage: no bundle artefact was checked")
    run.count("bundle_files_checked", n_bundle)

    # ---- coverage control
    # (a set whose artefacts cannot be generated/compiled at all is a violation already recorded above, not a
    #  machinery failure; only unexplained gaps are vacuous coverage)
    for s in SET_ORDER:
        explained = any(k.split("/")[0] == s for k in run.viol)
        if per_set[s]["generated"] == 0 and not explained:
            raise MachineryError(f"vacuous coverage: no option row of set '{s}' could be generated")
        if per_set[s]["compared_artifacts"] == 0 and not explained:
            raise MachineryError(f"vacuous coverage: no artefact of set '{s}' could be compiled and compared")
    total_fn = sum(len(info[s]["funcs"]) for s in SET_ORDER)
    if len(progs) != total_fn:
        missing = sorted({(s, f.name()) for s in SET_ORDER for f in info[s]["funcs"].values()} - progs)
        if not any(k.split("/")[0] == m[0] for m in missing for k in run.viol):
            raise MachineryError(f"vacuous coverage: functions never compared in C: {missing}")
    nc = sum(c["conditions"] for c in cov.values())
    nb = sum(c["conditions_both_ways"] for c in cov.values())
    if nc and nb < 0.5 * nc:
        raise MachineryError(f"vacuous coverage: only {nb}/{nc} branch conditions were driven both ways by the input lattice")
    low = {k: c["distinct_outputs"] for k, c in cov.items() if c["inputs"] > 1 and c["distinct_outputs"] < 2}
    if low:
        raise MachineryError(f"vacuous coverage: functions with a single distinct output over all inputs: {low}")
    run.assumptions += [
        "C vs symbolic equality is established on the enumerated input rows only (pattern rows x variants + the Alloc lattice); "
        "equality for all inputs and structural matching of the straight-line C against the instruction list are not decided",
        "inputs are finite doubles; NaN/Inf arise only as intermediate/output values (zero norms, zero dt, saturating magnitudes)",
        "compiled with the system gcc at default optimisation on x86-64; other compilers/flags (-ffast-math, FMA targets) not covered",
        "compile rule: rc 0, no error, no warning outside the -Wunused-* family; cpp rows as C++ (g++ -x c++), include_math=False rows "
        "with -include math.h, with_mem rows with -I<casadi>/include",
        "the mex=True code path is guarded by MATLAB_MEX_FILE and is not compiled",
        "option rows that cannot be generated are not compiled (their inventory is unknown)",
    ]
    return run.finish({
        "traces_validated_against_impl": len(gen_states),
        "programs": len(progs),
        "disagreements_checked": n_cmp,
        "artefacts_parsed": n_art,
        "artefacts_compiled": n_comp,
        "option_rows": {s: per_set[s] for s in SET_ORDER},
        "generator_calls": len(tasks),
        "failing_option_values": {g_: [f"{k}={v}" for _, k, v in cs] for g_, cs in culprits.items() if cs},
        "input_rows_from_tlc": len(eval_states),
        "evaluations": n_cmp + run.counts.get("symbolic_evaluations", 0),
        "distinct_nontrivial": nb,
        "rule": "non-trivial = branch conditions (comparison nodes, fmin/fmax/sign/fabs operand orders) of the symbolic functions that the "
                "input lattice drives both ways (measured on the SX graphs)",
        "branch_conditions_total": nc,
        "alloc_cells": alloc_cells,
        "per_function": cov,
        "shipped_sets": {s: {k: f.name() for k, f in info[s]["funcs"].items()} for s in SET_ORDER},
        "option_defaults": defaults,
        "ulps": ULPS,
        "exhaustive": tier == "thorough",
    })


if __name__ == "__main__":
    main_wrap(main)
