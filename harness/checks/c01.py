"""C01 -- group axioms under the matrix representation (spec/LieCalc.tla, LieGroups.tla).
TLC proves the axioms on the exact lattice; every state is one implementation test."""
import sys, json
import numpy as np
import casadi as ca
from harness.core import Run, run_tlc, parse_dump, main_wrap, MachineryError
from harness.cas import batch_call
from harness.lie import group_of, group_key, embed, rm_to_np, FnCache, sym_elem

PID = "C01"
TOL = 1e-9


def builders(G, op, n):
    """returns (ca.Function, list of clause names) for operation op on group G"""
    def mk():
        if op == "mat":
            a, X = sym_elem(G, "a")
            return ca.Function("f", [a], [ca.densify(X.to_Matrix())]), ["to_Matrix"]
        if op == "mul":
            a, X = sym_elem(G, "a"); b, Y = sym_elem(G, "b")
            return ca.Function("f", [a, b], [ca.densify((X * Y).to_Matrix())]), ["product"]
        if op == "inv":
            a, X = sym_elem(G, "a")
            return ca.Function("f", [a], [ca.densify(X.inverse().to_Matrix())]), ["inverse"]
        if op == "ident":
            a, X = sym_elem(G, "a")
            E = G.identity()
            return ca.Function("f", [a], [ca.densify(E.to_Matrix()) + 0 * a[0], ca.densify((X * E).to_Matrix()),
                                          ca.densify((E * X).to_Matrix())]), ["identity_matrix", "right_neutral", "left_neutral"]
        if op == "frommat":
            m = ca.SX.sym("m", n * n)
            M = ca.reshape(m, n, n)
            return ca.Function("f", [m], [ca.densify(G.from_Matrix(M).to_Matrix())]), ["from_Matrix"]
        if op == "assoc":
            a, X = sym_elem(G, "a"); b, Y = sym_elem(G, "b"); c, Z = sym_elem(G, "c")
            return ca.Function("f", [a, b, c], [ca.densify(((X * Y) * Z).to_Matrix()),
                                                ca.densify((X * (Y * Z)).to_Matrix())]), ["assoc_left", "assoc_right"]
        raise ValueError(op)
    return mk


def replay_prodhist(run, gk, tvs):
    """G = A*B(*C) built fresh, used, then reused as the LEFT operand of two further products; G must
    be unaffected and the extended products must have the extended dimensions."""
    import cyecca.lie as L
    for tv in tvs:
        X = tv["a"][0]
        run.count("evaluations")
        try:
            G = group_of(X)
            n0, shape0 = G.n_param, tuple(G.matrix_shape)
            p = ca.DM(embed(X))
            M0 = np.array(ca.DM(G.elem(p).to_Matrix()))
            H1 = G * L.R2
            H2 = G * L.SO3Quat
            M1 = np.array(ca.DM(G.elem(p).to_Matrix()))
            I1 = np.array(ca.DM(G.identity().to_Matrix()))
            d = shape0[0]
            ok = (G.n_param == n0 and tuple(G.matrix_shape) == shape0 and M1.shape == M0.shape
                  and np.max(np.abs(M1 - rm_to_np(tv["exp"]))) <= TOL and np.max(np.abs(I1 - np.eye(d))) <= TOL
                  and H1.n_param == n0 + 2 and H2.n_param == n0 + 4
                  and np.array(ca.DM(H1.identity().to_Matrix())).shape == (d + 3, d + 3)
                  and np.max(np.abs(np.array(ca.DM(H2.identity().to_Matrix())) - np.eye(d + 3))) <= TOL)
        except Exception as e:      # noqa
            run.violation(f"{gk}/prodhist/raises:{type(e).__name__}", f"a direct product reused as left operand of `*` is corrupted: {e}", {"tv": tv})
            continue
        if not ok:
            run.violation(f"{gk}/prodhist/side_effect", "building G*R2 and G*SO3Quat changed G or produced products of the wrong dimension", {"tv": tv})


def replay_group(run, cache, op, gk, tvs):
    if op == "prodhist":
        return replay_prodhist(run, gk, tvs)
    G = group_of(tvs[0]["a"][0])
    n = G.matrix_shape[0]
    built = cache.get((op, gk), builders(G, op, n))
    if built[0] in ("notimpl",):
        run.count("skipped_notimplemented", len(tvs))
        return
    if built[0] == "error":
        run.violation(f"{gk}/{op}/raises:{type(built[1]).__name__}",
                      f"operation raises {type(built[1]).__name__}: {built[1]}", {"tv": tvs[0]})
        return
    f, clauses = built
    exp = np.array([rm_to_np(tv["exp"]).flatten(order="F") for tv in tvs]).T
    if op == "frommat":
        cols = [exp]
    elif op == "ident":
        cols = [np.array([embed(tv["a"][0]) for tv in tvs]).T]
    else:
        k = {"mat": 1, "inv": 1, "mul": 2, "assoc": 3}[op]
        cols = [np.array([embed(tv["a"][i]) for tv in tvs]).T for i in range(k)]
    outs = batch_call(f, cols)
    run.count("evaluations", len(tvs) * len(outs))
    for j, out in enumerate(outs):
        e = exp
        if op == "ident" and j > 0:       # X*id and id*X must be X itself
            e = np.array([_mat_of(tv["a"][0]).flatten(order="F") for tv in tvs]).T
        scale = np.maximum(1.0, np.max(np.abs(e), axis=0))
        with np.errstate(invalid="ignore"):
            d = np.max(np.abs(out - e), axis=0)
        bad = ~(d <= TOL * scale)
        ok = ~bad
        if np.any(ok):
            run.err(float(np.max(d[ok])))
        for kk in np.nonzero(bad)[0]:
            run.violation(f"{gk}/{op}/{clauses[j]}",
                          f"{clauses[j]}: matrix of the result differs from the exact matrix semantics",
                          {"tv": tvs[kk], "got": out[:, kk].tolist(), "want": e[:, kk].tolist(), "err": float(d[kk])})


def _mat_of(X):
    """exact matrix of an abstract element (python mirror of LieGroups!Mat, used only for
    the neutral-element clause where the expectation is the operand itself)"""
    from harness.lie import rot
    g = X["g"]
    if g == "SO3":
        return rot(X["q"])
    if g == "SE3":
        M = np.eye(4); M[:3, :3] = rot(X["q"]); M[:3, 3] = np.array(X["p"], float) / X["pd"]; return M
    if g == "SE23":
        M = np.eye(5); M[:3, :3] = rot(X["q"]); M[:3, 3] = np.array(X["v"], float) / X["pd"]
        M[:3, 4] = np.array(X["p"], float) / X["pd"]; return M
    if g == "SO2":
        c, s, h = X["cs"]; return np.array([[c, -s], [s, c]], float) / h
    if g == "SE2":
        c, s, h = X["cs"]; M = np.eye(3); M[:2, :2] = np.array([[c, -s], [s, c]], float) / h
        M[:2, 2] = np.array(X["p"], float) / X["pd"]; return M
    if g == "Rn":
        n = len(X["x"]); M = np.eye(n + 1); M[:n, n] = np.array(X["x"], float) / X["pd"]; return M
    if g == "Prod":
        Ms = [_mat_of(f) for f in X["fs"]]
        n = sum(m.shape[0] for m in Ms); M = np.zeros((n, n)); o = 0
        for m in Ms:
            M[o:o + m.shape[0], o:o + m.shape[0]] = m; o += m.shape[0]
        return M


def main():
    tier = sys.argv[1] if len(sys.argv) > 1 else "quick"
    run = Run(PID, tier)
    cache = FnCache()
    from harness.lie import prelude as _prelude
    _prelude(run, report=("identity", "matrix"))
    from harness import history as _history      # engine H: call histories in fresh interpreters (spec/LieHistory.tla)
    if _history.hook(run, tier, {"mat", "inv", "sq", "ident", "mat_held", "mat_after_extend", "sq_after_extend"}):
        return run.finish()
    if "--replay" in sys.argv:
        d = json.load(open(sys.argv[sys.argv.index("--replay") + 1]))
        if "tv" not in d["data"]:            # a sweep finding (no TLC vector): re-run the sweep
            from harness.checks import c07 as _c07
            _c07.near_axis_sweep(run, _c07.FnCache())
            return run.finish()
        tv = d["data"]["tv"]
        replay_group(run, cache, tv["op"], group_key(tv["a"][0]), [tv])
        return run.finish()
    from harness.checks import c07 as _c07       # from_Matrix is a right inverse of to_Matrix also where a quaternion component is tiny
    _c07.near_axis_sweep(run, _c07.FnCache())
    res = run_tlc("LieCalc.tla", f"LieCalc_{tier}.cfg", workdir=run.workdir, dump=True)
    run.add_tlc("LieCalc", res)
    groups = {}
    n = 0
    for st in parse_dump(res["dump"]):
        tv = st["tv"]
        if tv["op"] == "seed":
            continue
        n += 1
        groups.setdefault((tv["op"], group_key(tv["a"][0])), []).append(tv)
    for (op, gk), tvs in sorted(groups.items()):
        run.sample({"op": op, "group": gk, "args": tvs[len(tvs) // 2]["a"]}, limit=8)
        replay_group(run, cache, op, gk, tvs)
    from harness import liechain, apalache
    chains = liechain.run_chains(run, tier)
    unbounded = apalache.prove(run) if tier == "thorough" else {"skipped": "thorough tier only"}
    n += chains["steps"]
    need_groups = {"SO2", "SE2", "R2", "R3", "SO3quat", "SO3mrp", "SO3dcm", "SO3euler", "SE3quat", "SE3mrp",
                   "SE23quat", "SE23mrp"}
    seen = {gk for (_, gk) in groups}
    if not need_groups <= seen or not any(g.startswith("(") for g in seen):
        raise MachineryError(f"vacuous coverage: groups never exercised: {need_groups - seen}")
    run.assumptions += [
        "elements are rational points (integer quaternions, Pythagorean angles, rational translations); validity between lattice points is not decided",
        "trusted: harness/lie.py embedding (textbook parameterisations), CasADi numeric evaluation, tolerance 1e-9*max(1,|M|)",
        "excluded as the property states: MRP elements/products at the 360-degree singularity, Euler elements/results exactly at a gimbal pole, from_Matrix where the group raises NotImplementedError",
    ]
    return run.finish({
        "traces_validated_against_impl": n,
        "evaluations": run.counts.get("evaluations", 0),
        "distinct_nontrivial": n - len([1 for (op, _), t in groups.items() if op == "mat" for _ in t]),
        "rule": "one TLC state = (operation, operands, exact expected matrix); non-trivial = any operation other than the bare to_Matrix pin",
        "per_group_op": {f"{gk}/{op}": len(t) for (op, gk), t in sorted(groups.items())},
        "chains": chains, "apalache_unbounded_identities": unbounded,
        "exhaustive": True,
    })


if __name__ == "__main__":
    main_wrap(main)
