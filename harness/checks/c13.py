"""C13 -- control allocation.  TLC enumerates the integer demand lattice of spec/Alloc.tla
(checking Impl => Oracle refinement and oracle soundness on every state); every state is
replayed into the real `control_allocation` CasADi function (engine A)."""
import sys
import numpy as np
from harness.core import Run, run_tlc, parse_dump, main_wrap, MachineryError
from harness.cas import batch_call

PID = "C13"
CTS = (2.0 ** -17, 1.0)


def cellname(cell):
    n = {-1: "<0", 0: "=0", 1: ">0"}
    return f"C1{n[cell[0]]}&C2{n[cell[1]]}"


def build():
    from cyecca.models import rdd2
    return rdd2.derive_control_allocation()["f_alloc"]


def replay_all(run, f, tvs, far=None):
    """vectorised engine-A replay of a list of test vectors.  far: the thrust demand of every vector is multiplied by this
    factor (Alloc!RangeLimited: only vectors whose demand is outside [0, 4 F_max] are passed, the expectation is unchanged)"""
    n = len(tvs)
    FM = np.array([tv["FM"] for tv in tvs], float)
    l = np.array([tv["geo"][0] / 16.0 for tv in tvs]); Cm = np.array([tv["geo"][1] / 16.0 for tv in tvs])
    T = np.array([4.0 * tv["t"] for tv in tvs]) * (1.0 if far is None else far)
    sfx = "" if far is None else "/far_thrust"
    m = np.array([tv["m"] for tv in tvs], float).T                      # 3 x n
    M = np.vstack([4 * l * m[0], 4 * l * m[1], 4 * Cm * m[2]])
    Fexp = np.array([tv["F"] for tv in tvs], float).T
    exact = np.array([tv["kind"] == "exact" for tv in tvs])
    impl = np.array([tv["impl_num"] for tv in tvs], float).T / np.array([tv["impl_den"] for tv in tvs], float)
    msat = np.array([tv["msat"] for tv in tvs], float).T
    msat = np.vstack([4 * l * msat[0], 4 * l * msat[1], 4 * Cm * msat[2]])
    fmo = np.array([tv["fm"] for tv in tvs], float).T
    ts = np.array([tv["ts"] for tv in tvs], float)
    cells = [cellname(tv["cell"]) for tv in tvs]
    for Ct in CTS:
        om, Fp, Fmo, Fth, Msat = batch_call(f, [FM[None], l[None], Cm[None], np.full((1, n), Ct), T[None], M])
        run.count("evaluations", n)
        fin = np.all(np.isfinite(Fp), axis=0) & np.all(np.isfinite(om), axis=0)
        bad_b = fin & (np.any(Fp < -1e-12, axis=0) | np.any(Fp > FM + 1e-12, axis=0))
        with np.errstate(invalid="ignore"):
            bad_o = fin & (np.any(om < 0, axis=0) | (np.max(np.abs(om * om * Ct - Fp), axis=0) > 1e-9 * np.maximum(1.0, FM)))
            e = np.max(np.abs(Fp - Fexp), axis=0)
        bad_e = fin & exact & ~(e <= 1e-9)
        if np.any(exact & fin):
            run.err(float(np.max(e[exact & fin])))
        d_impl = fin & (np.max(np.abs(impl - Fp), axis=0) > 1e-9)
        d_ms = fin & (np.max(np.abs(msat - Msat), axis=0) > 1e-9)
        d_f = fin & ((np.max(np.abs(fmo - Fmo), axis=0) > 1e-9) | (np.max(np.abs(ts - Fth), axis=0) > 1e-9))

        def data(k):
            return {"tv": tvs[k], "Ct": Ct, "Fp_sum": Fp[:, k].tolist(), "omega": om[:, k].tolist(), "thrust_demand": float(T[k])}
        for k in np.nonzero(~fin)[0]:
            run.violation(f"control_allocation/finite/{cells[k]}{sfx}", "non-finite motor force or speed", data(k))
        for k in np.nonzero(bad_b)[0]:
            run.violation(f"control_allocation/bounds/{cells[k]}{sfx}", "motor force outside [0, F_max]", data(k))
        for k in np.nonzero(bad_o)[0]:
            run.violation(f"control_allocation/omega/{cells[k]}{sfx}", "motor speed is not sqrt(F/Ct) >= 0", data(k))
        for k in np.nonzero(bad_e)[0]:
            run.violation(f"control_allocation/feasible_exact/{cells[k]}{sfx}",
                          "moment-feasible demand: motor forces differ from (demanded moment + least thrust shift)", data(k))
        if far is not None:
            continue
        # implementation-shaped comparisons: informational only (never an alarm)
        for k in np.nonzero(d_impl)[0]:
            run.spec_drift(f"control_allocation/impl_shape/{cells[k]}", "code differs from the implementation-shaped model Impl")
        for k in np.nonzero(d_ms)[0]:
            run.spec_drift("control_allocation/M_sat", "M_sat output differs from the range-limited demand")
        for k in np.nonzero(d_f)[0]:
            run.spec_drift("control_allocation/F_moment_F_thrust", "intermediate outputs differ")


def main():
    tier = sys.argv[1] if len(sys.argv) > 1 else "quick"
    run = Run(PID, tier)
    from harness.lie import touch_all as _touch_all
    _touch_all()        # first uses of the Lie API happen BEFORE the models are derived (see harness/lie.py)
    from harness import history as _history      # derivation histories in fresh interpreters (spec/DeriveHistory.tla)
    _history.run_models(run, tier, ("rdd2:control_allocation", "rdd2:f_alloc"))
    f = build()
    if "--replay" in sys.argv:
        import json
        d = json.load(open(sys.argv[sys.argv.index("--replay") + 1]))
        replay_all(run, f, [d["data"]["tv"]])
        return run.finish()
    res = run_tlc("Alloc.tla", f"Alloc_{tier}.cfg", workdir=run.workdir, dump=True)
    run.add_tlc("Alloc", res)
    cells = {}
    n = 0
    tvs = []
    for st in parse_dump(res["dump"]):
        tv = st["tv"]
        if tv["fn"] == "seed":
            continue
        n += 1
        cells[(cellname(tv["cell"]), tv["kind"])] = cells.get((cellname(tv["cell"]), tv["kind"]), 0) + 1
        if n % 9973 == 1:
            run.sample({k: tv[k] for k in ("FM", "geo", "t", "m", "kind", "F", "cell")})
        tvs.append(tv)
    replay_all(run, f, tvs)
    # "thrust demands far above 4 F_max" / far below zero: the demand is range-limited first, so the result does not change
    outside = [tv for tv in tvs if tv["t"] >= tv["FM"] or tv["t"] < 0]
    outside = outside[::max(1, len(outside) // (4000 if tier == "thorough" else 800))]
    if len(outside) < 50:
        raise MachineryError(f"vacuous coverage: only {len(outside)} vectors with a thrust demand outside [0, 4 F_max]")
    for far in (1e6, 1e15, 4e17, 1e30, 1e300):
        replay_all(run, f, outside, far=far)
    run.count("far_thrust_vectors", len(outside) * 5)
    need = {"C1>0&C2>0", "C1>0&C2<0", "C1<0&C2>0", "C1<0&C2<0", "C1=0&C2=0", "C1=0&C2>0", "C1>0&C2=0"}
    seen = {c for c, _ in cells}
    if not need <= seen:
        raise MachineryError(f"vacuous coverage: allocation cells never reached: {need - seen}")
    run.assumptions += [
        "demands are integer multiples of the motor-force unit; l, Cm dyadic with Cm | l; Ct in {2^-17, 1} (all doubles exact)",
        "validity between lattice points is not decided",
    ]
    return run.finish({
        "traces_validated_against_impl": n,
        "evaluations": run.counts.get("evaluations", 0),
        "distinct_nontrivial": sum(v for (c, k), v in cells.items() if c != "C1>0&C2>0"),
        "rule": "every TLC state (F_max, geometry, thrust, moment) is one vector; non-trivial = at least one saturation side active (cell != C1>0&C2>0)",
        "cells": {f"{c}/{k}": v for (c, k), v in sorted(cells.items())},
        "exhaustive": True,
    })


if __name__ == "__main__":
    main_wrap(main)
