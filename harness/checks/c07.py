"""C07 -- SO(3) representation conversions (spec/Convert.tla)."""
import sys, json, math
import numpy as np
import casadi as ca
from harness.core import Run, run_tlc, parse_dump, main_wrap, MachineryError
from harness.cas import batch_call
from harness.lie import so3_param, rm_to_np, FnCache

PID = "C07"
TOL = 1e-9
BAND_TOL = 2e-3      # documented 1e-3 rad gimbal band -> <= 2e-3 on matrix entries


def groups():
    import cyecca.lie as L
    return {"quat": L.SO3Quat, "mrp": L.SO3Mrp, "dcm": L.SO3Dcm, "euler": L.SO3EulerB321}


def builder(op, frm, to):
    G = groups()
    meth = {"quat": "from_Quat", "mrp": "from_Mrp", "dcm": "from_Dcm", "euler": "from_Euler"}

    def mk():
        if op in ("conv", "eul"):
            a = ca.SX.sym("a", G[frm].n_param)
            Y = getattr(G[to], meth[frm])(G[frm].elem(a))
        elif op == "frommat":
            a = ca.SX.sym("a", 9)
            Y = G[to].from_Matrix(ca.reshape(a, 3, 3))
        elif op == "shadow":
            # history on ONE element: it is converted, then switched to the non-shadow representative in place, then
            # converted again -- every conversion, before and after, must give the same rotation
            a = ca.SX.sym("a", 3)
            Y = G["mrp"].elem(a)
            before = [ca.densify(Y.to_Matrix()), ca.densify(G["dcm"].from_Mrp(Y).to_Matrix()), ca.densify(G["quat"].from_Mrp(Y).to_Matrix())]
            G["mrp"].shadow_if_necessary(Y)
            after = [ca.densify(G["dcm"].from_Mrp(Y).to_Matrix()), ca.densify(G["quat"].from_Mrp(Y).to_Matrix()),
                     ca.densify(G["euler"].from_Mrp(Y).to_Matrix())]
            return ca.Function("f", [a], [ca.densify(Y.to_Matrix()), Y.param] + before + after)
        return ca.Function("f", [a], [ca.densify(Y.to_Matrix()), Y.param])
    return mk


def valid_param(to, P):
    """per-column validity residual (<= tol is valid) of raw parameters of representation `to`"""
    if to == "quat":
        return np.abs(np.sum(P * P, axis=0) - 1.0)
    if to == "mrp":
        return np.maximum(0.0, np.sqrt(np.sum(P * P, axis=0)) - 1.0)
    if to == "dcm":
        out = np.empty(P.shape[1])
        for k in range(P.shape[1]):
            R = P[:, k].reshape(3, 3, order="F")
            out[k] = max(np.max(np.abs(R.T @ R - np.eye(3))), abs(np.linalg.det(R) - 1.0)) if np.all(np.isfinite(R)) else np.nan
        return out
    if to == "euler":
        return np.maximum(0.0, np.abs(P[1]) - math.pi / 2)


def replay_group(run, cache, key, tvs):
    op, frm, to = key
    built = cache.get(key, builder(op, frm, to))
    if isinstance(built, tuple):
        run.violation(f"{frm}->{to}/{op}/raises:{type(built[1]).__name__}", f"conversion raises: {built[1]}", {"tv": tvs[0]})
        return
    f = built
    if op == "conv" or op == "shadow":
        A = np.array([so3_param(frm, tv["q"]) for tv in tvs]).T
    elif op == "eul":
        A = np.array([[2 * math.atan2(tv["zyx"][0][3], tv["zyx"][0][0]), 2 * math.atan2(tv["zyx"][1][2], tv["zyx"][1][0]),
                       2 * math.atan2(tv["zyx"][2][1], tv["zyx"][2][0])] for tv in tvs]).T
    else:
        A = np.array([rm_to_np(tv["exp"]).flatten(order="F") for tv in tvs]).T
    outs_all = batch_call(f, [A])
    M, P = outs_all[0], outs_all[1]
    run.count("evaluations", len(tvs))
    E = np.array([rm_to_np(tv["exp"]).flatten(order="F") for tv in tvs]).T
    with np.errstate(invalid="ignore"):
        d = np.max(np.abs(M - E), axis=0)
        vres = valid_param(to, P)
    for k, tv in enumerate(tvs):
        cell = tv["cell"]
        tol = BAND_TOL if (to == "euler" and cell in ("pole", "band")) else TOL
        data = {"tv": tv, "param_in": A[:, k].tolist(), "param_out": P[:, k].tolist(), "err": float(d[k])}
        if not (d[k] <= tol):
            run.violation(f"{frm}->{to}/{op}/rotation/{cell}", "converted element has a different rotation matrix", data)
        else:
            if tol == TOL:
                run.err(float(d[k]))
        if not (vres[k] <= 1e-9):
            run.violation(f"{frm}->{to}/{op}/valid/{cell}", "result is not a valid representative (unit quaternion / |mrp|<=1 / orthonormal det+1 / pitch range)", data)
    if op == "shadow":
        names = ["mrp.to_Matrix(before)", "dcm.from_Mrp(before)", "quat.from_Mrp(before)", "dcm.from_Mrp(after)", "quat.from_Mrp(after)", "euler.from_Mrp(after)"]
        for j, nm in enumerate(names):
            with np.errstate(invalid="ignore"):
                dj = np.max(np.abs(outs_all[2 + j] - E), axis=0)
            for k, tv in enumerate(tvs):
                tolj = BAND_TOL if (nm.startswith("euler") and tv["cell"] in ("pole", "band")) else TOL
                if not (dj[k] <= tolj):
                    run.violation(f"mrp/shadow_history/{nm}/{tv['cell']}", "an MRP element converted, switched to its non-shadow representative in place and "
                                  "converted again does not keep its rotation in every conversion", {"tv": tv, "param_in": A[:, k].tolist(), "err": float(dj[k])})


def near_level_sweep(run, cache):
    """headings beyond 120 deg with tilts of 0, 1e-7 .. 1e-4 rad: the attitudes a vehicle hovering with its nose away
    from north has all the time.  trace(R) <= 0 and two diagonal entries agree to rounding, so the matrix -> quaternion
    extraction chooses between nearly degenerate pivots.  Their integers do not fit TLC's 32 bits; the expectation is
    the matrix itself (numpy Rz Ry Rx): every from-matrix conversion must reproduce it and return a valid element."""
    def rx(a): c, s_ = math.cos(a), math.sin(a); return np.array([[1, 0, 0], [0, c, -s_], [0, s_, c]])
    def ry(a): c, s_ = math.cos(a), math.sin(a); return np.array([[c, 0, s_], [0, 1, 0], [-s_, 0, c]])
    def rz(a): c, s_ = math.cos(a), math.sin(a); return np.array([[c, -s_, 0], [s_, c, 0], [0, 0, 1]])
    yaws = [2.2, 2.6, 3.0, -2.4, -2.9, math.pi, 2.0944, -2.0945, 1.0]
    tilts = [0.0, 1e-7, -1e-6, 1e-5, -1e-4, 3e-6]
    Rs = [rz(y) @ ry(a) @ rx(b) for y in yaws for a in tilts for b in tilts]
    A = np.array([R.flatten(order="F") for R in Rs]).T
    for to in ("quat", "mrp", "dcm", "euler"):
        built = cache.get(("frommat", "matrix", to), builder("frommat", "matrix", to))
        if isinstance(built, tuple):
            continue
        M, P = batch_call(built, [A])[:2]
        run.count("evaluations", A.shape[1]); run.count("near_level_sweep", A.shape[1])
        with np.errstate(invalid="ignore"):
            d = np.max(np.abs(M - A), axis=0)
            v = valid_param(to, P)
        for k in range(A.shape[1]):
            if not (d[k] <= TOL):
                run.violation(f"matrix->{to}/frommat/rotation/near_level", "converted element has a different rotation matrix",
                              {"matrix": Rs[k].tolist(), "param_out": P[:, k].tolist(), "err": float(d[k])})
            elif not (v[k] <= 1e-9):
                run.violation(f"matrix->{to}/frommat/valid/near_level", "result is not a valid representative", {"matrix": Rs[k].tolist(), "param_out": P[:, k].tolist()})


def near_axis_sweep(run, cache):
    """rotations of 130 .. 180 deg about an axis that is a coordinate axis up to a component of 1e-4 .. 1e-10: trace(R) <= 0,
    one quaternion component dominates and another is tiny but not zero, so a pivot chosen one rank too low divides a
    cancelled difference by that tiny component.  (Integers of this shape do not fit TLC's 32 bits; the expectation is the
    matrix itself.)  Also used by C01 (from_Matrix is a right inverse of to_Matrix)."""
    Rs, qs = [], []
    for th in (2.3, 2.9, math.pi, 3.3):
        for i in range(3):
            for j in range(3):
                if i == j:
                    continue
                for eps in (1e-4, 1e-6, -1e-8, 1e-10):
                    ax = np.zeros(3); ax[i] = 1.0; ax[j] = eps
                    ax /= np.linalg.norm(ax)
                    w, (x, y, z) = math.cos(th / 2), math.sin(th / 2) * ax
                    R = np.array([[1 - 2 * (y * y + z * z), 2 * (x * y - w * z), 2 * (x * z + w * y)],
                                  [2 * (x * y + w * z), 1 - 2 * (x * x + z * z), 2 * (y * z - w * x)],
                                  [2 * (x * z - w * y), 2 * (y * z + w * x), 1 - 2 * (x * x + y * y)]])
                    Rs.append(R); qs.append([w, x, y, z])
    A = np.array([R.flatten(order="F") for R in Rs]).T
    for to in ("quat", "mrp"):
        built = cache.get(("frommat", "matrix", to), builder("frommat", "matrix", to))
        if isinstance(built, tuple):
            continue
        M, P = batch_call(built, [A])[:2]
        run.count("evaluations", A.shape[1]); run.count("near_axis_sweep", A.shape[1])
        with np.errstate(invalid="ignore"):
            d = np.max(np.abs(M - A), axis=0)
            v = valid_param(to, P)
        for k in range(A.shape[1]):
            if not (d[k] <= TOL):
                run.violation(f"matrix->{to}/frommat/rotation/near_axis", "converted element has a different rotation matrix",
                              {"matrix": Rs[k].tolist(), "quaternion": qs[k], "param_out": P[:, k].tolist(), "err": float(d[k])})
            elif not (v[k] <= 1e-9) and not (to == "mrp" and abs(qs[k][0]) < 1e-9):      # |r| = 1 at exactly 180 deg
                run.violation(f"matrix->{to}/frommat/valid/near_axis", "result is not a valid representative", {"matrix": Rs[k].tolist(), "param_out": P[:, k].tolist()})


def main():
    tier = sys.argv[1] if len(sys.argv) > 1 else "quick"
    run = Run(PID, tier)
    cache = FnCache()
    from harness.lie import prelude as _prelude
    _prelude(run, report=("convert", "matrix"))
    from harness import history as _history      # engine H: call histories in fresh interpreters (spec/LieHistory.tla)
    if _history.hook(run, tier, {"conv", "shadowseq", "mat"}):
        return run.finish()
    # the opposite order of first uses (B321 before the user-built Euler groups) in a process of its own
    import subprocess, os
    pr = subprocess.run([sys.executable, "-m", "harness.lie", "b321_first"], capture_output=True, text=True, env=dict(os.environ), cwd="/verif")
    try:
        for fam, key, what, data in json.loads(pr.stdout.strip().splitlines()[-1]):
            if fam in ("convert", "matrix"):
                run.violation(f"prelude/b321_first/{key}", what, data)
        run.count("prelude_second_process")
    except Exception as ex:     # noqa
        raise MachineryError(f"second-process prelude failed: {ex}: {pr.stderr[-400:]}")
    if "--replay" in sys.argv:
        d = json.load(open(sys.argv[sys.argv.index("--replay") + 1]))
        if "tv" not in d["data"]:            # a sweep finding (no TLC vector): re-run the sweeps
            near_level_sweep(run, cache); near_axis_sweep(run, cache)
            return run.finish()
        tv = d["data"]["tv"]
        replay_group(run, cache, (tv["op"], tv["from"], tv["to"]), [tv])
        return run.finish()
    res = run_tlc("Convert.tla", f"Convert_{tier}.cfg", workdir=run.workdir, dump=True)
    run.add_tlc("Convert", res)
    grp, cells, shep = {}, {}, set()
    n = 0
    for st in parse_dump(res["dump"]):
        tv = st["tv"]
        if tv["op"].startswith("seed"):
            continue
        n += 1
        grp.setdefault((tv["op"], tv["from"], tv["to"]), []).append(tv)
        cells[tv["cell"]] = cells.get(tv["cell"], 0) + 1
        if tv["op"] == "frommat" and tv["to"] == "quat":
            shep.add(tv["shep"])
    for key, tvs in sorted(grp.items()):
        run.sample({"op": key[0], "from": key[1], "to": key[2], "q": tvs[len(tvs) // 3]["q"]}, limit=6)
        replay_group(run, cache, key, tvs)
    near_level_sweep(run, cache)
    near_axis_sweep(run, cache)
    pairs = {(f, t) for (op, f, t) in grp if op == "conv"}
    if len(pairs) != 12 or shep != {1, 2, 3, 4} or not {"pole", "band", "nearband", "pi", "wneg", "nearid", "nearpi"} <= set(cells):
        raise MachineryError(f"vacuous coverage: pairs={len(pairs)} shepperd={shep} cells={sorted(cells)}")
    run.assumptions += [
        "rotations are rational (integer quaternions); validity between lattice points is not decided",
        "Euler target inside the documented gimbal band (exact poles and |pitch -+ pi/2| < 1e-3) compared with 2e-3 on matrix entries, everything else 1e-9",
    ]
    return run.finish({
        "traces_validated_against_impl": n, "evaluations": n,
        "distinct_nontrivial": n - cells.get("wpos", 0),
        "rule": "one TLC state = (conversion, signed integer quaternion, exact matrix); non-trivial = special cell (w<0/shadow, 180 deg, near identity, near 180, gimbal pole/band/near band)",
        "cells": cells, "shepperd_branches": sorted(shep), "ordered_pairs": len(pairs), "exhaustive": True,
    })


if __name__ == "__main__":
    main_wrap(main)
