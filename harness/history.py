"""Engine H: call histories of the element-level Lie API (spec/LieHistory.tla).

`python -m harness.history exec` reads a JSON list of steps [{g, mk, op}, ...] on stdin, executes them IN ORDER in
this (fresh) interpreter against the cyecca tree on PYTHONPATH and prints one JSON list of results (a list of floats,
or a string such as "NotImplementedError" / "n/a").  `run(...)` (used by the checks C01..C07) asks TLC for the
configurations, runs every history in its own process and reports
  (H1) a step whose result differs between two histories,
  (H2) two makers of the same value with different results for the same (group, operation).
Only steps whose operation belongs to the calling check's property are reported; all steps are executed."""
import sys, os, json, math, io, contextlib, subprocess
import concurrent.futures as cf
import numpy as np

VALS = {        # dense numbers "a" per parameterisation; "b" = a * (1 + 2.5e-8); "s" = values with exact zeros (stored sparsely)
    "quat": ([0.5, 0.5, -0.5, 0.5], [-0.6, 0.0, 0.8, 0.0]),      # "s": negative scalar part
    "mrp": ([0.2, -0.3, 0.1], [0.0, 0.3, 0.0]),
    "euler": ([0.3, -0.4, 0.5], [0.0, 0.3, 0.0]),
    "r3": ([1.0, -2.0, 0.5], [0.0, 1.5, 0.0]),
    "r2": ([1.0, -2.0], [0.0, 1.5]),
    "so2": ([0.7], [0.7]),
    "alg3": ([0.3, -0.2, 0.4], [0.0, 0.25, 0.0]),
}


def _rz(a):
    c, s = math.cos(a), math.sin(a)
    return np.array([[c, -s, 0], [s, c, 0], [0, 0, 1.0]])


def _params(gname, which):
    """numbers of maker a / s for group or algebra gname (None = maker not available)"""
    k = 0 if which == "a" else 1
    q, m, e, r3, r2 = VALS["quat"][k], VALS["mrp"][k], VALS["euler"][k], VALS["r3"][k], VALS["r2"][k]
    table = {
        "SO3Quat": q, "SO3Mrp": m, "SO3EulerB321": e, "EulerS321": e, "EulerB123": e,
        "SO3Dcm": (_rz(0.4) @ np.array([[1, 0, 0], [0, math.cos(0.3), -math.sin(0.3)], [0, math.sin(0.3), math.cos(0.3)]])).flatten(order="F").tolist()
        if k == 0 else _rz(0.4).flatten(order="F").tolist(),
        "SE3Quat": r3 + q, "SE3Mrp": r3 + m, "SE23Quat": r3 + [0.5, 0.0, -1.0] + q if k == 0 else r3 + [0.0, 0.0, -1.0] + q,
        "SE23Mrp": r3 + [0.5, 0.0, -1.0] + m if k == 0 else r3 + [0.0, 0.0, -1.0] + m,
        "SE2": r2 + VALS["so2"][k], "SO2": VALS["so2"][k], "R3": r3,
        "SO3Quat*R3": q + r3, "SE3Quat*SE3Mrp": r3 + q + r3 + m, "SE3Mrp*SE3Quat": r3 + m + r3 + q,
        "alg:so3": VALS["alg3"][k], "alg:se3": r3 + VALS["alg3"][k], "alg:se23": r3 + [0.5, 0.0, -1.0] + VALS["alg3"][k] if k == 0 else r3 + [0.0, 0.0, -1.0] + VALS["alg3"][k],
        "alg:se2": r2 + VALS["so2"][k], "alg:so3*r3": VALS["alg3"][k] + r3,
    }
    return table[gname]


class World:
    def __init__(self):
        import casadi as ca
        with contextlib.redirect_stdout(io.StringIO()):
            import cyecca.lie as L
            from cyecca.lie.group_so3 import SO3EulerLieGroup, EulerType, Axis
        self.ca, self.L = ca, L
        self.g = {"SO3Quat": L.SO3Quat, "SO3Mrp": L.SO3Mrp, "SO3Dcm": L.SO3Dcm, "SO3EulerB321": L.SO3EulerB321,
                  "EulerS321": SO3EulerLieGroup(euler_type=EulerType.space_fixed, sequence=[Axis.z, Axis.y, Axis.x]),
                  "EulerB123": SO3EulerLieGroup(euler_type=EulerType.body_fixed, sequence=[Axis.x, Axis.y, Axis.z]),
                  "SE3Quat": L.SE3Quat, "SE3Mrp": L.SE3Mrp, "SE23Quat": L.SE23Quat, "SE23Mrp": L.SE23Mrp, "SE2": L.SE2, "SO2": L.SO2, "R3": L.R3,
                  "SO3Quat*R3": L.SO3Quat * L.R3, "SE3Quat*SE3Mrp": L.SE3Quat * L.SE3Mrp, "SE3Mrp*SE3Quat": L.SE3Mrp * L.SE3Quat}
        self.tracked = []
        self.alg = {"alg:so3": (L.so3, L.SO3Quat), "alg:se3": (L.se3, L.SE3Mrp), "alg:se23": (L.se23, L.SE23Quat), "alg:se2": (L.se2, L.SE2),
                    "alg:so3*r3": (L.so3 * L.r3, L.SO3Quat * L.R3)}

    def make(self, gname, mk):
        x = self._make(gname, mk)
        self.track(x, lambda o: o.param)
        return x

    def track(self, obj, getter):
        """(H4) remember what an operand denotes when it is handed to the library"""
        self.tracked.append((obj, getter, self._num(getter(obj))))

    def _num(self, x):
        ca = self.ca
        try:
            return np.array(ca.DM(ca.densify(ca.SX(x)))).flatten(order="F").tolist()
        except Exception:       # noqa
            return None

    @staticmethod
    def _gsnap(G):
        """sizes and factor counts of a group / algebra object"""
        a = getattr(G, "algebra", None)
        return [getattr(G, "n_param", None), len(getattr(G, "groups", ()) or ()), len(getattr(G, "algebras", ()) or ()),
                getattr(a, "n_param", None), len(getattr(a, "algebras", ()) or ())]

    def run(self, st):
        """one step + (H4): every operand still denotes what it denoted, the group objects keep their shape"""
        self.tracked = []
        objs = [self.alg[st["g"]][0], self.alg[st["g"]][1]] if st["g"].startswith("alg:") else [self.g[st["g"]]]
        before = [self._gsnap(o) for o in objs]
        r = self._run_op(st)
        mut = []
        for obj, getter, snap in self.tracked:
            now = self._num(getter(obj))
            if snap is not None and (now is None or len(now) != len(snap) or not np.allclose(now, snap, rtol=0, atol=1e-15, equal_nan=True)):
                mut.append({"operand": type(obj).__name__, "before": snap, "after": now})
        after = [self._gsnap(o) for o in objs]
        if after != before:
            mut.append({"operand": "group/algebra object", "before": before, "after": after})
        return {"r": r, "mutated": mut} if mut else r

    def _make(self, gname, mk):
        ca = self.ca
        is_alg = gname.startswith("alg:")
        G = self.alg[gname][0] if is_alg else self.g[gname]
        n = G.n_param
        if mk == "id":
            return G.elem(ca.DM.zeros(n)) if is_alg else G.identity()
        if mk == "exp0":
            return G.elem(ca.SX(n, 1)) if is_alg else G.algebra.elem(ca.SX(G.algebra.n_param, 1)).exp(G)
        if mk in ("a", "b"):
            v = np.array(_params(gname, "a"), float) * (1.0 if mk == "a" else 1.0 + 2.5e-8)
            if mk == "b" and gname in ("SO3Dcm",):     # keep a valid DCM: perturb the angle instead of scaling the entries
                v = (_rz(0.4 * (1 + 2.5e-8)) @ np.array(_params(gname, "a")).reshape(3, 3, order="F") @ _rz(-0.4)).flatten(order="F") \
                    if False else np.array(_params(gname, "a"), float)
            return G.elem(ca.DM(v))
        v = np.array(_params(gname, "s"), float)
        if mk == "sd":
            return G.elem(ca.DM(v))
        p = ca.SX(n, 1)                 # "s": only the non-zero entries are stored
        for i, x in enumerate(v):
            if x != 0.0:
                p[i] = float(x)
        return G.elem(p)

    @staticmethod
    def _quiet(f):
        """the in-between activity of an H3 variant: whether IT is offered for this group does not matter"""
        try:
            return f()
        except Exception:       # noqa
            return None

    def _extend(self, obj, is_alg):
        """use a kept group / algebra object as the left factor of a larger direct product"""
        try:
            return obj * (self.L.so2 if is_alg else self.L.SO2)
        except Exception:       # noqa
            return None

    def _run_op(self, st):
        ca, L = self.ca, self.L
        g, mk, op = st["g"], st["mk"], st["op"]
        is_alg = g.startswith("alg:")

        def out(x):
            return np.array(ca.DM(ca.densify(ca.SX(x)))).flatten(order="F").tolist()
        try:
            if is_alg:
                alg, G = self.alg[g]
                if op not in ("exp", "Ad", "Jl", "Jr", "Jli", "Jri", "mat", "Jl_after_Jr", "Jr_after_Jl", "Ad_held", "mat_held", "scaled",
                              "mat_after_extend", "Ad_after_extend"):
                    return "n/a"
                x = self.make(g, mk)
                if op == "scaled":
                    return out((x * 0.25).param) + out((0.25 * x).param) + out((-x).param)
                if op in ("mat_after_extend", "Ad_after_extend"):
                    if self._extend(alg, True) is None:
                        return "n/a"
                    return out(x.to_Matrix() if op == "mat_after_extend" else x.ad())
                if op == "Jl_after_Jr":
                    self._quiet(x.right_jacobian); self._quiet(lambda: x.right_jacobian_inv())
                    return out(x.left_jacobian())
                if op == "Jr_after_Jl":
                    self._quiet(x.left_jacobian); self._quiet(lambda: x.left_jacobian_inv())
                    return out(x.right_jacobian())
                if op in ("Ad_held", "mat_held"):
                    other = self.make(g, "a" if mk != "a" else "sd")
                    if op == "Ad_held":
                        A = x.ad(); other.ad()
                    else:
                        A = x.to_Matrix(); other.to_Matrix()
                    return out(A)
                if op == "exp":
                    return out(x.exp(G).to_Matrix())
                if op == "mat":
                    return out(x.to_Matrix())
                if op == "Ad":
                    return out(x.ad())
                return out({"Jl": x.left_jacobian, "Jr": x.right_jacobian, "Jli": x.left_jacobian_inv, "Jri": x.right_jacobian_inv}[op]())
            G = self.g[g]
            if op == "exp":
                return "n/a"
            if op == "ident":
                return out(G.identity().to_Matrix())
            X = self.make(g, mk)
            if op in ("mat_after_extend", "sq_after_extend", "log_after_extend", "Ad_after_extend"):
                if self._extend(G, False) is None:
                    return "n/a"
                op = op[:-len("_after_extend")]
            if op in ("mixed", "mixed2"):
                if g not in ("SE23Quat", "SE23Mrp"):
                    return "n/a"
                l = self.make("alg:se23", "a"); r_ = self.make("alg:se23", "sd")
                B = ca.SX(ca.DM([[0.0, 0.125], [0.0, 0.0]]))
                self.track(B, lambda o: o)
                Y = G.exp_mixed(X, l, r_, B)
                if op == "mixed2":
                    Y = G.exp_mixed(X, l, r_, B)
                return out(Y.to_Matrix())
            if op == "scaled":
                return "n/a"
            if op == "mat":
                return out(X.to_Matrix())
            if op == "inv":
                return out(X.inverse().to_Matrix())
            if op == "sq":
                return out((X * X).to_Matrix())
            if op == "log":
                return out(X.log().param)
            if op == "Ad":
                return out(X.Ad())
            if op in ("Jl", "Jr"):
                return out(X.left_jacobian() if op == "Jl" else X.right_jacobian())
            if op in ("Jli", "Jri"):
                return out(X.left_jacobian_inv() if op == "Jli" else X.right_jacobian_inv())
            if op in ("Jl_after_Jr", "Jr_after_Jl"):
                if op == "Jl_after_Jr":
                    self._quiet(X.right_jacobian); self._quiet(lambda: X.right_jacobian_inv())
                    return out(X.left_jacobian())
                self._quiet(X.left_jacobian); self._quiet(lambda: X.left_jacobian_inv())
                return out(X.right_jacobian())
            if op in ("Ad_held", "mat_held"):
                other = self.make(g, "a" if mk != "a" else "sd")
                if op == "Ad_held":
                    A = X.Ad(); other.Ad()
                else:
                    A = X.to_Matrix(); other.to_Matrix()
                return out(A)
            if op == "conv":
                if g not in ("SO3Quat", "SO3Mrp", "SO3Dcm", "SO3EulerB321", "EulerS321", "EulerB123"):
                    return "n/a"
                meth = {"SO3Quat": "from_Quat", "SO3Mrp": "from_Mrp", "SO3Dcm": "from_Dcm"}.get(g, "from_Euler")
                res = []
                for tgt in ("SO3Quat", "SO3Mrp", "SO3Dcm", "SO3EulerB321"):
                    if tgt == g:
                        continue
                    res += out(getattr(self.g[tgt], meth)(X).to_Matrix())
                return res
            if op == "shadowseq":
                if g != "SO3Mrp":
                    return "n/a"
                Y = L.SO3Mrp.elem(-X.param / ca.dot(X.param, X.param)) if float(ca.DM(ca.dot(X.param, X.param))) > 0 else X     # the shadow (|r| > 1) of the same rotation
                r = out(Y.to_Matrix()) + out(L.SO3Dcm.from_Mrp(Y).to_Matrix())
                L.SO3Mrp.shadow_if_necessary(Y)
                return r + out(Y.to_Matrix()) + out(L.SO3Dcm.from_Mrp(Y).to_Matrix()) + out(Y.param)
            return "n/a"
        except NotImplementedError:
            return "NotImplementedError"
        except Exception as ex:     # noqa
            return f"raises:{type(ex).__name__}"


def _exec_main():
    steps = json.load(sys.stdin)
    with contextlib.redirect_stdout(io.StringIO()):
        w = World()
        res = [w.run(st) for st in steps]
    print(json.dumps(res))


def _run_history(steps):
    env = dict(os.environ)
    p = subprocess.run([sys.executable, "-m", "harness.history", "exec"], input=json.dumps(steps), capture_output=True, text=True, env=env, cwd="/verif")
    if p.returncode != 0:
        raise RuntimeError(p.stderr[-600:])
    return json.loads(p.stdout.strip().splitlines()[-1])


def _same(a, b, tol=1e-12):
    a = a["r"] if isinstance(a, dict) else a
    b = b["r"] if isinstance(b, dict) else b
    if isinstance(a, str) or isinstance(b, str):
        return a == b
    a, b = np.asarray(a, float), np.asarray(b, float)
    if a.shape != b.shape or not np.array_equal(np.isnan(a), np.isnan(b)):
        return False
    fin = np.isfinite(a) & np.isfinite(b)
    if not np.array_equal(np.isinf(a), np.isinf(b)):
        return False
    scale = max(1.0, float(np.max(np.abs(a[fin])))) if np.any(fin) else 1.0
    return bool(np.all(np.abs(a[fin] - b[fin]) <= tol * scale))


def run(run_, tier, ops, workers=12):
    """run_: harness.core.Run of the calling check; ops: the operations whose disagreements that check reports"""
    from harness.core import run_tlc, parse_dump, MachineryError
    res = run_tlc("LieHistory.tla", f"LieHistory_{tier}.cfg", workdir=run_.workdir, dump=True, workers=4)
    run_.add_tlc("LieHistory", res)
    hist = {}
    for st in parse_dump(res["dump"]):
        if st["pos"] >= 1:
            c = st["cfg"]
            key = (c["first"], c["orot"], bool(c["orev"]), c["grot"], bool(c["grev"]))
            hist.setdefault(key, []).append((st["pos"], dict(st["step"])))
    if len(hist) < 4:
        raise MachineryError(f"LieHistory: only {len(hist)} configurations")
    hs = {k: [s for _, s in sorted(v, key=lambda t: t[0])] for k, v in hist.items()}
    with cf.ThreadPoolExecutor(workers) as ex:
        futs = {k: ex.submit(_run_history, v) for k, v in hs.items()}
        out = {}
        for k, f in futs.items():
            try:
                out[k] = f.result()
            except Exception as e:      # noqa
                raise MachineryError(f"history {k} could not be executed: {e}")
    # H4: operands are values
    base = {"Jl_after_Jr": "Jl", "Jr_after_Jl": "Jr", "Ad_held": "Ad", "mat_held": "mat", "mixed2": "mixed", "mat_after_extend": "mat",
            "sq_after_extend": "sq", "log_after_extend": "log", "Ad_after_extend": "Ad"}
    reported = set()
    for k, steps in hs.items():
        for i, (st, r) in enumerate(zip(steps, out[k])):
            if isinstance(r, dict):
                out[k][i] = r["r"]
                sk = (st["g"], st["op"])
                if (st["op"] in ops or base.get(st["op"]) in ops) and sk not in reported:
                    reported.add(sk)
                    run_.violation(f"history/{st['g']}/{st['op']}/operand_mutated", "a call changed an object it was given (its argument element, the matrix B, or "
                                   "the group / algebra object): the caller's value is different after the call", {"step": st, "history": list(k), "mutated": r["mutated"][:3]})
    # H1: the same step in different histories
    seen = {}
    nsteps = 0
    for k, steps in hs.items():
        for st, r in zip(steps, out[k]):
            nsteps += 1
            sk = (st["g"], st["mk"], st["op"])
            if sk in seen:
                k0, r0 = seen[sk]
                if not _same(r0, r) and st["op"] in ops:
                    run_.violation(f"history/{st['g']}/{st['op']}/depends_on_history", "the same call gives different results in two call histories executed in "
                                   "fresh interpreters (state kept between calls or objects)",
                                   {"step": st, "history_1": list(k0), "history_2": list(k), "result_1": r0, "result_2": r})
            else:
                seen[sk] = (k, r)
    # H2: makers of equal value
    eq = (("id", "exp0"), ("s", "sd"))
    for (g, mk, op), (k, r) in seen.items():
        for a, b in eq:
            if mk == a and (g, b, op) in seen and op in ops:
                r2 = seen[(g, b, op)][1]
                if isinstance(r, str) or isinstance(r2, str):
                    continue            # a maker or an operation that is not offered for this group: nothing to compare
                if not _same(r, r2, tol=1e-9):
                    run_.violation(f"history/{g}/{op}/equal_value_makers:{a}|{b}", "two ways of building the SAME element (identity() vs exp of an empty algebra "
                                   "element; sparsely vs densely stored numbers) give different results", {"group": g, "op": op, "result_" + a: r, "result_" + b: r2})
    # H3: operations that only differ in what else was done with the same objects
    for (g, mk, op), (k, r) in seen.items():
        if op in base and (g, mk, base[op]) in seen and (base[op] in ops or op in ops):
            r0 = seen[(g, mk, base[op])][1]
            if isinstance(r0, str) or r in ("n/a", "NotImplementedError"):
                continue            # the base operation is not offered here: nothing to compare (an exception where the base gives a value IS compared)
            if isinstance(r, str) or not _same(r, r0, tol=1e-12):
                run_.violation(f"history/{g}/{base[op]}/{op}", "the result of a call depends on what else was done with the same objects (call order on one element, a "
                               "result held while the method runs on another element, a second call with the same arguments, or the "
                               "group / algebra object used as the left factor of a larger direct product in between)", {"group": g, "maker": mk, "result": r, "result_base": r0})
    run_.count("history_steps", nsteps)
    run_.count("histories", len(hs))
    na = sum(1 for v in seen.values() if v[1] == "n/a")
    run_.count("history_distinct_steps_applicable", len(seen) - na)


# --------------------------------------------------------------------------------------
# derivation histories of the model / estimator equations (spec/DeriveHistory.tla)
# --------------------------------------------------------------------------------------
def _derive(module):
    """{exported function name: ca.Function} of one derivation of `module`"""
    import casadi as ca
    out = {}
    if module == "estimator":
        from cyecca.estimate.attitude import algorithms
        for sname, d in algorithms.eqs().items():
            for k, f in d.items():
                out[f"estimator:{sname}:{f.name()}"] = f
        return out
    if module == "quadrotor":
        from cyecca.models import quadrotor
        m = quadrotor.derive_model()
        return {f"quadrotor:{k}": v for k, v in m.items() if isinstance(v, ca.Function)}
    import importlib
    mod = importlib.import_module("cyecca.models." + module)
    for n in sorted(dir(mod)):
        if n.startswith("derive_"):
            try:
                r = getattr(mod, n)()
            except Exception:       # noqa
                continue
            if isinstance(r, dict):
                for k, f in r.items():
                    if isinstance(f, ca.Function):
                        out[f"{module}:{f.name()}"] = f
    return out


def _eval_fn(f, seed):
    import casadi as ca
    rng = np.random.default_rng(seed)
    res = []
    for _ in range(2):
        args = [ca.DM(rng.uniform(0.2, 1.1, f.numel_in(i)).reshape(f.size_in(i), order="F")) for i in range(f.n_in())]
        try:
            r = f(*args) if f.n_in() else f()
        except Exception as ex:     # noqa
            res.append(f"raises:{type(ex).__name__}"); continue
        if isinstance(r, dict):
            r = [r[k] for k in sorted(r)]
        r = r if isinstance(r, (list, tuple)) else [r]
        res.append([float(x) for o in r for x in np.array(ca.DM(o)).flatten(order="F")])
    return res


def _models_main():
    seq = json.load(sys.stdin)          # [{"module":..., "nth":...}, ...]
    import zlib
    with contextlib.redirect_stdout(io.StringIO()), contextlib.redirect_stderr(io.StringIO()):
        import matplotlib
        matplotlib.use("Agg")
        derived = []
        for st in seq:
            derived.append((st, _derive(st["module"])))
        out = []
        for st, fns in derived:
            out.append({"step": st, "values": {k: _eval_fn(f, zlib.crc32(k.encode())) for k, f in sorted(fns.items())}})
    print(json.dumps(out))


def run_models(run_, tier, prefixes):
    """prefixes: tuple of 'module:function' prefixes whose disagreements the calling check reports"""
    from harness.core import run_tlc, parse_dump, MachineryError
    if "--replay" in sys.argv:
        return
    res = run_tlc("DeriveHistory.tla", f"DeriveHistory_{tier}.cfg", workdir=run_.workdir, dump=True, workers=2)
    run_.add_tlc("DeriveHistory", res)
    hist = {}
    for st in parse_dump(res["dump"]):
        if st["pos"] >= 1:
            c = st["cfg"]
            hist.setdefault((c["rot"], bool(c["rev"]), c["again"]), []).append((st["pos"], dict(st["step"])))
    hs = {k: [s for _, s in sorted(v, key=lambda t: t[0])] for k, v in hist.items()}
    if len(hs) < 3:
        raise MachineryError(f"DeriveHistory: only {len(hs)} configurations")

    def one(steps):
        p = subprocess.run([sys.executable, "-m", "harness.history", "models"], input=json.dumps(steps), capture_output=True, text=True,
                           env=dict(os.environ, MPLBACKEND="Agg"), cwd="/verif")
        if p.returncode != 0:
            raise RuntimeError(p.stderr[-600:])
        return json.loads(p.stdout.strip().splitlines()[-1])
    with cf.ThreadPoolExecutor(min(8, len(hs))) as ex:
        futs = {k: ex.submit(one, v) for k, v in hs.items()}
        out = {}
        for k, f in futs.items():
            try:
                out[k] = f.result()
            except Exception as e:      # noqa
                raise MachineryError(f"derivation history {k} could not be executed: {e}")
    seen = {}
    n = 0
    for k, rs in out.items():
        for r in rs:
            for fn, vals in r["values"].items():
                n += 1
                if fn in seen:
                    k0, st0, v0 = seen[fn]
                    same = all(_same(a, b, tol=1e-12) for a, b in zip(v0, vals)) and len(v0) == len(vals)
                    if not same and fn.startswith(tuple(prefixes)):
                        run_.violation(f"derivation_history/{fn}", "the exported function computes different values depending on what was derived before it in the "
                                       "same interpreter (order of derivations, or a second derivation)",
                                       {"function": fn, "history_1": list(k0), "derivation_1": st0, "history_2": list(k), "derivation_2": r["step"],
                                        "values_1": v0, "values_2": vals})
                else:
                    seen[fn] = (k, r["step"], vals)
    run_.count("derivation_histories", len(hs))
    run_.count("derived_function_evaluations", n)


def hook(run_, tier, ops):
    """called by the checks right after their prelude: runs the histories (normal run), or only them when a history
    finding is being replayed (returns True: the caller finishes)"""
    if "--replay" in sys.argv:
        try:
            key = json.load(open(sys.argv[sys.argv.index("--replay") + 1])).get("key", "")
        except Exception:       # noqa
            key = ""
        if key.startswith("history/"):
            run(run_, "quick", ops)
            return True
        return False
    run(run_, tier, ops)
    return False


if __name__ == "__main__":
    if len(sys.argv) > 1 and sys.argv[1] == "exec":
        _exec_main()
    elif len(sys.argv) > 1 and sys.argv[1] == "models":
        _models_main()
