"""Engine-A replay for spec/ExpLog.tla vectors (used by C02, C03 and the Ad_exp clause of C04).

Embedding of half-angle elements: h = (w, v) integer  ->  x = nu*v with sigma = |v|,
theta = 2*atan2(sigma, w) in [0, 2pi), nu = theta/sigma, mu = 1/(theta*sigma).  These two
doubles are the only non-exact ingredients; selftest() checks the embedding against
mpmath.expm at 40 digits."""
import math
import numpy as np
import casadi as ca
from harness.cas import batch_call
from harness.lie import so3_param, rm_to_np, embed, FnCache

TOL = 1e-9


def hscal(h):
    w = float(h[0]); v = np.array(h[1:], float)
    n = float(int(h[1]) ** 2 + int(h[2]) ** 2 + int(h[3]) ** 2)
    if n == 0:
        return 0.0, 0.0, None, v, n
    sg = math.sqrt(n)
    th = 2.0 * math.atan2(sg, w)
    return th, th / sg, 1.0 / (th * sg), v, n


def xvec(h):
    th, nu, mu, v, n = hscal(h)
    return nu * v


def screw_rho(h, alpha, y):
    th, nu, mu, v, n = hscal(h)
    return alpha * v + nu * np.cross(v, np.array(y, float))


def sym_vec(terms, scal):
    """a0/d0 + scal*a1/d1 from a spec record; zero-rotation records have d0 = 0"""
    return np.array(terms["a0"], float) / terms["d0"] + scal * np.array(terms["a1"], float) / terms["d1"]


def groups():
    import cyecca.lie as L
    return L


def so3_group(rep):
    L = groups()
    return {"quat": L.SO3Quat, "mrp": L.SO3Mrp, "dcm": L.SO3Dcm, "euler": L.SO3EulerB321}[rep]


def se3_group(rep):
    L = groups()
    if rep in ("dcm", "euler"):         # user-built: the class is generic over the SO(3) parameterisation
        from harness.lie import group_of
        return group_of({"g": "SE3", "rep": rep})
    return {"quat": L.SE3Quat, "mrp": L.SE3Mrp}[rep]


def se23_group(rep):
    L = groups()
    if rep in ("dcm", "euler"):
        from harness.lie import group_of
        return group_of({"g": "SE23", "rep": rep})
    return {"quat": L.SE23Quat, "mrp": L.SE23Mrp}[rep]


def alg_group(kind, rep):
    L = groups()
    if kind == "so3":
        return L.so3, so3_group(rep)
    if kind == "se3":
        return L.se3, se3_group(rep)
    if kind == "se23":
        return L.se23, se23_group(rep)
    raise ValueError(kind)


def f_exp(cache, kind, rep):
    """x -> [Mat(exp x), Mat(exp(-x)), Mat(exp(x).inverse()), param(log(exp x)), Ad(exp x)]"""
    def mk():
        alg, G = alg_group(kind, rep)
        a = ca.SX.sym("a", alg.n_param)
        X = alg.elem(a).exp(G)
        Xm = alg.elem(-a).exp(G)
        outs = [ca.densify(X.to_Matrix()), ca.densify(Xm.to_Matrix()), ca.densify(X.inverse().to_Matrix()),
                X.log().param]
        names = ["exp", "exp_neg", "exp_inv", "logexp"]
        try:
            outs.append(ca.densify(X.Ad())); names.append("Ad")
        except Exception:
            pass
        return ca.Function("f", [a], outs), names
    return cache.get(("exp", kind, rep), mk)


def f_hom(cache, kind, rep):
    def mk():
        alg, G = alg_group(kind, rep)
        a = ca.SX.sym("a", alg.n_param); s = ca.SX.sym("s"); t = ca.SX.sym("t")
        x = alg.elem(a)
        lhs = ((s + t) * x).exp(G)
        rhs = (s * x).exp(G) * (t * x).exp(G)
        return ca.Function("f", [a, s, t], [ca.densify(lhs.to_Matrix()), ca.densify(rhs.to_Matrix())])
    return cache.get(("hom", kind, rep), mk)


def f_log(cache, kind, rep):
    """group param -> [param(log X), Mat(exp(log X)), Mat(X)]"""
    def mk():
        alg, G = alg_group(kind, rep)
        a = ca.SX.sym("a", G.n_param)
        X = G.elem(a)
        lg = X.log()
        return ca.Function("f", [a], [lg.param, ca.densify(lg.exp(G).to_Matrix()), ca.densify(X.to_Matrix())])
    return cache.get(("log", kind, rep), mk)


def mat_se3(R, p):
    M = np.eye(4); M[:3, :3] = R; M[:3, 3] = p; return M


def mat_se23(R, v, p):
    M = np.eye(5); M[:3, :3] = R; M[:3, 3] = v; M[:3, 4] = p; return M


def colF(M):
    return np.asarray(M, float).flatten(order="F")


class Cmp:
    """collects comparisons: violation if |got - want| > tol*max(1,|want|)"""
    def __init__(self, run, tol=TOL):
        self.run = run; self.tol = tol

    def vec(self, key, what, got, want, tv, extra=None):
        got = np.asarray(got, float).flatten(); want = np.asarray(want, float).flatten()
        with np.errstate(invalid="ignore"):
            d = float(np.max(np.abs(got - want))) if got.shape == want.shape else float("nan")
        sc = max(1.0, float(np.max(np.abs(want)))) if want.size else 1.0
        if not (d <= self.tol * sc):
            data = {"tv": tv, "got": got.tolist(), "want": want.tolist(), "err": d}
            if extra:
                data.update(extra)
            self.run.violation(key, what, data)
            return False
        self.run.err(d)
        return True


def selftest():
    """embedding check: exp of the embedded half-angle element (mpmath expm, 40 digits) is the
    rotation QMat(h)/N; V-matrix symbolic form equals the integral definition."""
    import mpmath as mp
    mp.mp.dps = 40
    for h in [(1, 1, 0, 0), (-1, 1, 1, 0), (64, 1, 2, 2), (1, 12, -16, 15), (2000, -1, 1, 1), (-2, 0, 1, 1)]:
        w = mp.mpf(h[0]); v = [mp.mpf(c) for c in h[1:]]
        n = sum(c * c for c in v); sg = mp.sqrt(n); th = 2 * mp.atan2(sg, w)
        x = [th * c / sg for c in v]
        X = mp.matrix([[0, -x[2], x[1], 1], [x[2], 0, -x[0], -2], [-x[1], x[0], 0, 3], [0, 0, 0, 0]])
        E = mp.expm(X)
        from harness.lie import rot
        R = rot(h)
        th_f, nu, mu, vf, nf = hscal(h)
        Hm = np.array([[0, -vf[2], vf[1]], [vf[2], 0, -vf[0]], [-vf[1], vf[0], 0]])
        N = float(sum(c * c for c in h))
        V = (nf * np.eye(3) + Hm @ Hm) / nf + mu * (2 * nf * Hm - 2 * h[0] * Hm @ Hm) / N
        p = V @ np.array([1.0, -2.0, 3.0])
        for i in range(3):
            for j in range(3):
                assert abs(float(E[i, j]) - R[i, j]) < 1e-13, ("rot", h)
            assert abs(float(E[i, 3]) - p[i]) < 1e-12, ("V", h, float(E[i, 3]), p[i])
        assert np.max(np.abs(np.array([float(c) for c in x]) - xvec(h))) < 1e-14
    return True
