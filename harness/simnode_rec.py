"""G01 helper: record executions of the REAL Simulator node (cyecca/estimate/attitude/simulator.py)
and project them into the integer-coded NDJSON lines of spec/SimulatorNodeTrace.tla.

Observation needs no source hook (everything is a recording proxy installed in this process only):
  * the equations the node calls are handed to its constructor (`eqs`): every function of
    eqs["sim"] is wrapped by a proxy that records its arguments and result;
  * three recording subscribers (public uros API) see every message of sim_attitude / imu / mag
    synchronously at the publish call, so calls and publications are totally ordered in one list;
  * the module attribute `simulator.simpy` is replaced for the lifetime of one run by a namespace
    whose Timeout records (now, delay) before creating the real simpy.Timeout.
True-state vectors are identified by bit identity: version 0 = x0, version k = the output of the
k-th simulate call.  The content of every message is recomputed from that state vector with the
independent sensor model below (textbook formulas, nothing imported from cyecca) -- flags ok/gyro/
accel in the lines.  Times are integer microseconds (round-trip checked to 1e-3 us)."""
from __future__ import annotations

import math
import types

import numpy as np

TOL = 1e-9
PAR_KEYS = ("sn", "sg", "sa", "sm", "g", "ms", "decl", "incl", "noise")
PAR_NAMES = {"sn": "sim/sn_gyro_rw", "sg": "sim/std_gyro", "sa": "sim/std_accel", "sm": "sim/std_mag", "g": "sim/g",
             "ms": "sim/mag_str", "decl": "sim/mag_decl", "incl": "sim/mag_incl", "noise": "sim/enable_noise"}
DEFAULT_PAR = {"sn": 1e-5, "sg": 1e-3, "sa": 35e-3, "sm": 2.5e-3, "g": 9.8, "ms": 0.1, "decl": 0.0, "incl": 0.0, "noise": True}


def us(t: float) -> int:
    v = float(t) * 1e6
    r = round(v)
    if abs(v - r) > 1e-3:
        raise ValueError(f"time/value {t!r} is not a whole number of micro-units")
    return int(r)


def code(v) -> int:
    """integer code of a parameter value (micro-units, booleans 0/1); -1 for a value that is not a micro-unit multiple"""
    if isinstance(v, (bool, np.bool_)):
        return int(bool(v))
    try:
        return us(float(v))
    except ValueError:
        return -1


def par_codes(par):
    return {k: code(par[k]) for k in PAR_KEYS}


# ------------------------------------------------------------------ independent sensor model
def rot_mrp(r):
    """rotation matrix (body -> navigation) of the MRP r: quaternion ((1-|r|^2), 2r)/(1+|r|^2)"""
    r = np.asarray(r, float)
    n2 = float(r @ r)
    w, x, y, z = np.concatenate([[1 - n2], 2 * r]) / (1 + n2)
    return np.array([[w*w + x*x - y*y - z*z, 2*(x*y - w*z), 2*(x*z + w*y)],
                     [2*(x*y + w*z), w*w - x*x + y*y - z*z, 2*(y*z - w*x)],
                     [2*(x*z - w*y), 2*(y*z + w*x), w*w - x*x - y*y + z*z]])


def rot_quat(q):
    w, x, y, z = np.asarray(q, float)
    return np.array([[w*w + x*x - y*y - z*z, 2*(x*y - w*z), 2*(x*z + w*y)],
                     [2*(x*y + w*z), w*w - x*x + y*y - z*z, 2*(y*z - w*x)],
                     [2*(x*z - w*y), 2*(y*z + w*x), w*w - x*x - y*y + z*z]]) / float(np.dot(q, q))


def model_gyro(x, omega, std, w):
    return np.asarray(omega, float) + x[3:6] + std * np.asarray(w, float)


def model_accel(x, g, std, w):
    return rot_mrp(x[:3]).T @ np.array([0.0, 0.0, -g]) + std * np.asarray(w, float)


def model_mag(x, ms, decl, incl, std, w):
    bn = ms * np.array([math.cos(decl) * math.cos(incl), math.sin(decl) * math.cos(incl), math.sin(incl)])   # z down
    return rot_mrp(x[:3]).T @ bn + std * np.asarray(w, float)


def close(a, b, tol=TOL):
    a = np.asarray(a, float).flatten(); b = np.asarray(b, float).flatten()
    if a.shape != b.shape or not (np.all(np.isfinite(a)) and np.all(np.isfinite(b))):
        return False
    return bool(np.max(np.abs(a - b)) <= tol * max(1.0, float(np.max(np.abs(b)))))


def omega_profile(t):
    """the excitation hard-wired in Simulator.run (an implementation detail: compared as SPEC-DRIFT only)"""
    return 10 * np.array([(1 + math.sin(2 * math.pi * 0.1 * t + 1)) / 2, -(1 + math.sin(2 * math.pi * 0.2 * t + 2)) / 2,
                          (1 + math.cos(2 * math.pi * 0.3 * t + 3)) / 2])


# ------------------------------------------------------------------ one recorded run
def _vec(a):
    return np.array(a, float).flatten()


def run_node(cfg, sim_eqs=None):
    """cfg: dict(tid, S, I, M, H (us), x0 (6 floats), par (dict over PAR_KEYS, floats/bool),
                 change = None | dict(at (us), S, I, M, par))
    returns (lines, info)"""
    import simpy
    import cyecca.sim.uros as uros
    import cyecca.sim.msgs as msgs
    from cyecca.estimate.attitude import simulator as simmod
    if sim_eqs is None:
        from cyecca.estimate.attitude import launch
        sim_eqs = launch.eqs["sim"]
    raw = []
    core = uros.Core()

    def wrap(name, f):
        def g(*a):
            out = f(*a)
            raw.append(("call", name, float(core.now), a, out))
            return out
        return g
    proxies = {"sim": {k: wrap(k, f) for k, f in sim_eqs.items()}}

    def rec_timeout(c, delay, *a, **k):
        raw.append(("sleep", float(c.now), float(delay)))
        return simpy.Timeout(c, delay, *a, **k)
    ns = types.SimpleNamespace(Process=simpy.Process, Timeout=rec_timeout)
    orig_simpy = simmod.simpy
    simmod.simpy = ns
    try:
        x0 = [float(v) for v in cfg["x0"]]
        node = simmod.Simulator(core, proxies, x0)
        declared = [(p.name, p.value, p.dtype) for p in core._declared_params.values() if p.name.startswith("sim/")]
        topics = [t for t in core._publishers if t != "params"]
        for topic, ty in (("sim_attitude", msgs.Attitude), ("imu", msgs.Imu), ("mag", msgs.Mag)):
            if topic in core._publishers:
                uros.Subscriber(core, topic, ty, lambda m, topic=topic: raw.append(("msg", topic, float(core.now), m.data.copy())))
        core.init_params()

        def setall(S, I, M, par):
            vals = {"sim/dt_sim": S / 1e6, "sim/dt_imu": I / 1e6, "sim/dt_mag": M / 1e6}
            vals.update({PAR_NAMES[k]: par[k] for k in PAR_KEYS})
            for k, v in vals.items():
                core.set_param(k, v)
        setall(cfg["S"], cfg["I"], cfg["M"], cfg["par"])
        ch = cfg.get("change")
        if ch:
            def changer():
                yield simpy.Timeout(core, ch["at"] / 1e6)
                setall(ch["S"], ch["I"], ch["M"], ch["par"])
                raw.append(("params", float(core.now), ch))
            simpy.Process(core, changer())
        core.run(until=cfg["H"] / 1e6)
    finally:
        simmod.simpy = orig_simpy
    t_end = float(core.now)

    # ---------------------------------------------------------------- projection into trace lines
    tid = cfg["tid"]
    ver = {np.array(x0, float).tobytes(): 0}
    nsim = 0
    omegas = {}              # now -> omegas handed to simulate / measure_gyro in that iteration
    for r in raw:
        if r[0] == "call" and r[1] == "simulate":
            omegas.setdefault(r[2], []).append(_vec(r[3][2]))
        elif r[0] == "call" and r[1] == "measure_gyro":
            omegas.setdefault(r[2], []).append(_vec(r[3][1]))
    lines = [{"tid": tid, "e": "start", "S": cfg["S"], "I": cfg["I"], "M": cfg["M"], "H": cfg["H"], "par": par_codes(cfg["par"]),
              "declared": [d[0] for d in declared], "defaults": [code(d[1]) for d in declared], "dtypes": [d[2] for d in declared],
              "topics": topics, "x0ok": int(node.x0 is x0 or list(node.x0) == x0)}]
    pend = {}
    drift = []
    worst = 0.0

    def version(x):
        return ver.get(_vec(x).tobytes(), -1)
    for r in raw:
        if r[0] == "call":
            _, name, now, a, out = r
            if name == "simulate":
                t, x, om, sn, w, dt = a
                nsim += 1
                vin = version(x)
                ver[_vec(out).tobytes()] = nsim
                lines.append({"tid": tid, "e": "sim", "now": us(now), "t": us(float(t)), "dt": us(float(dt)), "vin": vin, "vout": nsim,
                              "sn": code(float(sn))})
            else:
                pend[name] = (now, a, out)
        elif r[0] == "msg":
            _, topic, now, d = r
            stamp = float(d["time"])
            st = us(stamp) if math.isfinite(stamp) else -1
            if topic == "sim_attitude":
                c = pend.pop("get_state", None)
                v, ok = -1, 0
                if c is not None and c[0] == now:
                    x = _vec(c[1][0]); v = version(x)
                    q = _vec(d["q"]); rr = _vec(d["r"]); b = _vec(d["b"])
                    ok = int(close(rr, x[:3]) and close(b, x[3:6]) and close([q @ q], [1.0]) and close(rot_quat(q), rot_mrp(x[:3])))
                oms = omegas.get(now, [])
                om = int(len(oms) > 0 and all(np.array_equal(_vec(d["omega"]), o) for o in oms))
                if not close(_vec(d["omega"]), omega_profile(now)):
                    drift.append(("simulator/omega_profile", "published angular rate differs from the transcribed excitation profile"))
                lines.append({"tid": tid, "e": "att", "now": us(now), "stamp": st, "ver": v, "ok": ok, "om": om})
            elif topic == "imu":
                cg = pend.pop("measure_gyro", None); ca_ = pend.pop("measure_accel", None)
                vg = va = -1; sg = sa = g = -1; okg = oka = 0
                if cg is not None and cg[0] == now:
                    x, om_, std, w = cg[1]
                    x = _vec(x); vg = version(x); sg = code(float(std))
                    want = model_gyro(x, _vec(om_), float(std), _vec(w))
                    okg = int(close(_vec(d["gyro"]), want))
                    worst = max(worst, float(np.max(np.abs(_vec(d["gyro"]) - want))))
                if ca_ is not None and ca_[0] == now:
                    x, gg, std, w = ca_[1]
                    x = _vec(x); va = version(x); sa = code(float(std)); g = code(float(gg))
                    want = model_accel(x, float(gg), float(std), _vec(w))
                    oka = int(close(_vec(d["accel"]), want))
                    worst = max(worst, float(np.max(np.abs(_vec(d["accel"]) - want))))
                lines.append({"tid": tid, "e": "imu", "now": us(now), "stamp": st, "vg": vg, "va": va, "sg": sg, "sa": sa, "g": g,
                              "gyro": okg, "accel": oka})
            elif topic == "mag":
                c = pend.pop("measure_mag", None)
                v = -1; sm = ms = decl = incl = -1; ok = 0
                if c is not None and c[0] == now:
                    x, mstr, de, inc, std, w = c[1]
                    x = _vec(x); v = version(x)
                    sm, ms, decl, incl = code(float(std)), code(float(mstr)), code(float(de)), code(float(inc))
                    want = model_mag(x, float(mstr), float(de), float(inc), float(std), _vec(w))
                    ok = int(close(_vec(d["mag"]), want))
                    worst = max(worst, float(np.max(np.abs(_vec(d["mag"]) - want))))
                lines.append({"tid": tid, "e": "mag", "now": us(now), "stamp": st, "ver": v, "sm": sm, "ms": ms, "decl": decl, "incl": incl, "ok": ok})
        elif r[0] == "sleep":
            pend.clear()
            lines.append({"tid": tid, "e": "sleep", "now": us(r[1]), "delay": code(r[2])})
        elif r[0] == "params":
            c = r[2]
            lines.append({"tid": tid, "e": "params", "S": c["S"], "I": c["I"], "M": c["M"], "par": par_codes(c["par"])})
    lines.append({"tid": tid, "e": "end", "now": us(t_end)})
    info = {"tid": tid, "lines": len(lines), "sim_calls": nsim, "drift": sorted(set(drift)), "max_content_err": worst,
            "n": {k: sum(1 for ln in lines if ln["e"] == k) for k in ("sim", "att", "imu", "mag", "sleep", "params")},
            "imu_stamps": [ln["stamp"] for ln in lines if ln["e"] == "imu"], "mag_stamps": [ln["stamp"] for ln in lines if ln["e"] == "mag"]}
    return lines, info
