"""G03 helper: record executions of the REAL ULogReplay node (cyecca/sim/replay.py) on the real uros
Core, driven by a FAKE pyulog.ULog, and project them into the integer-coded NDJSON lines of
spec/ReplayNodeTrace.tla.

No real ULog file is needed: `pyulog.ULog` is replaced (for the lifetime of one run, in this process
only) by a class whose `data_list` holds synthetic topics -- real `pyulog.ULog.Data` instances (the
node's LogEvent is beartype-annotated with that class) built without a file: `.name`, `.data` = dict
of numpy arrays incl. "timestamp" as np.uint64, float fields as float32 (what pyulog delivers for PX4
`float`) or float64.

Observation needs no source hook:
  * recording Subscribers (public uros API) on EVERY bus topic the node created a Publisher for see
    every message synchronously at the publish call (sim time, bus topic, message class, data copy);
  * `core.timeout` of this Core instance and `replay.simpy.Timeout` are recording proxies: every wait
    the node yields is recorded as (now, delay) -- that is how a skipped event becomes observable.
Every synthetic number is unique over (log topic position p, sample k, field f, component i), so the
sample a message was copied from is identified from its content alone (majority vote over the
finite numbers of the message; square roots of the covariances are in the table as well).
Times are integer microseconds relative to the first stamp of the log (round-trip checked to 1e-3 us).
The mapping below is transcribed from the task statement, not imported from cyecca."""
from __future__ import annotations

import math
import os
import tempfile
import types

import numpy as np

TOL = 1e-9
HANDLED = {"sensor_combined": ("imu", "Imu"), "vehicle_magnetometer": ("mag", "Mag"),
           "estimator_status": ("log_status", "EstimatorStatus"),
           "vehicle_attitude_groundtruth": ("ground_truth_attitude", "Attitude"),
           "vehicle_attitude": ("log_attitude", "Attitude")}
IGNORED = ("vehicle_air_data", "vehicle_rates_setpoint", "vehicle_attitude_setpoint", "rate_ctrl_status", "actuator_controls_0",
           "vehicle_local_position", "vehicle_local_position_groundtruth", "vehicle_global_position",
           "vehicle_global_position_groundtruth", "vehicle_actuator_outputs", "vehicle_gps_position",
           "vehicle_local_position_setpoint", "actuator_outputs", "battery_status", "manual_control_setpoint",
           "vehicle_land_detected", "telemetry_status", "vehicle_status_flags", "vehicle_status", "sensor_preflight",
           "vehicle_command", "commander_state", "actuator_armed", "sensor_selection", "input_rc", "ekf2_innovations",
           "system_power", "radio_status", "cpuload", "ekf_gps_drift", "home_position", "mission_result",
           "position_setpoint_triplet", "ekf2_timestamps")
N_MAX = 24                      # msgs.EstimatorStatus.n_max
NSTATES = (24, 3, 0, 1, 7, 24, 5, 2)          # n_states of sample k of an estimator_status topic

# field numbers of the synthetic values
F = {"gyro_rad": 1, "accelerometer_m_s2": 2, "magnetometer_ga": 3, "q": 4, "rollspeed": 5, "pitchspeed": 6, "yawspeed": 7,
     "states": 8, "covariances": 9, "mag_test_ratio": 10, "other": 11, "sqrt": 12}


def kind(name):
    return "handled" if name in HANDLED else ("ignored" if name in IGNORED else "unknown")


def val(p, k, f, i):
    """unique, exactly representable in float32 (< 2**23, fraction 1/2)"""
    assert 0 <= p < 15 and 0 <= k < 8 and 0 < f < 16 and 0 <= i < 32
    return float((((p + 1) * 8 + k) * 16 + f) * 32 + i) + 0.5


def cov_val(p, k, i):
    """covariance i of sample k: positive (not a perfect square), zero, negative, positive ... by i % 4"""
    v = val(p, k, F["covariances"], i)
    return (v, 0.0, -v, v / 4.0)[i % 4]


def nan_at(f, i):
    """where the NaN sample of a topic carries NaN: component 1 of every array field and the scalar pitchspeed
    (the other numbers keep the sample identifiable)"""
    return (i == 1 and f not in (F["rollspeed"], F["yawspeed"], F["mag_test_ratio"])) or f == F["pitchspeed"]


def us(t):
    """whole microseconds of a time in seconds; None when off the microsecond grid by more than 1e-3 us or not finite"""
    t = float(t)
    if not math.isfinite(t):
        return None
    v = t * 1e6
    r = round(v)
    return int(r) if abs(v - r) <= 1e-3 else None


# ------------------------------------------------------------------ the synthetic log
def make_topic(Data, name, p, stamps_abs, f32, nan_k=None):
    """one logged topic at position p of data_list; sample nan_k (if any) carries NaN in its float fields"""
    ft = np.float32 if f32 else np.float64
    n = len(stamps_abs)
    d = {"timestamp": np.array(stamps_abs, dtype=np.uint64)}

    def col(f, i):
        a = np.array([val(p, k, f, i) for k in range(n)], dtype=ft)
        if nan_k is not None and nan_k < n and nan_at(f, i):
            a[nan_k] = np.nan
        return a
    if name == "sensor_combined":
        for i in range(3):
            d[f"gyro_rad[{i}]"] = col(F["gyro_rad"], i)
            d[f"accelerometer_m_s2[{i}]"] = col(F["accelerometer_m_s2"], i)
        d["gyro_integral_dt"] = np.array([4000 + k for k in range(n)], dtype=np.uint32)
        d["accelerometer_timestamp_relative"] = np.zeros(n, dtype=np.int32)
    elif name == "vehicle_magnetometer":
        for i in range(3):
            d[f"magnetometer_ga[{i}]"] = col(F["magnetometer_ga"], i)
    elif name in ("vehicle_attitude", "vehicle_attitude_groundtruth"):
        for i in range(4):
            d[f"q[{i}]"] = col(F["q"], i)
        for fn in ("rollspeed", "pitchspeed", "yawspeed"):
            d[fn] = col(F[fn], 0)
        for i in range(4):
            d[f"delta_q_reset[{i}]"] = col(F["other"], i)
    elif name == "estimator_status":
        d["n_states"] = np.array([NSTATES[k] for k in range(n)], dtype=np.uint8)
        for i in range(N_MAX):
            d[f"states[{i}]"] = col(F["states"], i)
            c = np.array([cov_val(p, k, i) for k in range(n)], dtype=ft)
            if nan_k is not None and nan_k < n and nan_at(F["covariances"], i):
                c[nan_k] = np.nan
            d[f"covariances[{i}]"] = c
        d["mag_test_ratio"] = col(F["mag_test_ratio"], 0)
        d["vel_test_ratio"] = col(F["other"], 0)
    else:
        d["value"] = col(F["other"], 0)
        for i in range(3):                      # an ignored / unknown topic may well carry fields of a handled one
            d[f"gyro_rad[{i}]"] = col(F["other"], 1 + i)
    t = Data.__new__(Data)
    t.name = name
    t.data = d
    t.multi_id = 0
    t.msg_id = p
    t.field_data = []
    t.timestamp_idx = 0
    return t


def expected(name, p, k, f32, is_nan):
    """fields of the message sample k of log topic p must produce (float64), from the synthetic log alone"""
    ft = np.float32 if f32 else np.float64

    def vec(f, n):
        a = np.array([val(p, k, f, i) for i in range(n)], dtype=ft).astype(np.float64)
        if is_nan:
            for i in range(n):
                if nan_at(f, i):
                    a[i] = np.nan
        return a
    if name == "sensor_combined":
        return {"gyro": vec(F["gyro_rad"], 3), "accel": vec(F["accelerometer_m_s2"], 3)}
    if name == "vehicle_magnetometer":
        return {"mag": vec(F["magnetometer_ga"], 3)}
    if name in ("vehicle_attitude", "vehicle_attitude_groundtruth"):
        om = np.array([vec(F[fn], 1)[0] for fn in ("rollspeed", "pitchspeed", "yawspeed")])
        return {"q": vec(F["q"], 4), "omega": om}
    if name == "estimator_status":
        n = NSTATES[k]
        x = np.full(N_MAX, np.nan); W = np.full(N_MAX, np.nan)
        x[:n] = vec(F["states"], N_MAX)[:n]
        c = np.array([cov_val(p, k, i) for i in range(N_MAX)], dtype=ft).astype(np.float64)
        if is_nan:
            c[[i for i in range(N_MAX) if nan_at(F["covariances"], i)]] = np.nan
        with np.errstate(invalid="ignore"):
            W[:n] = np.where(c > 0, np.sqrt(np.where(c > 0, c, 1.0)), c)[:n]
        return {"x": x, "W": W, "beta_mag": vec(F["mag_test_ratio"], 1)[0], "_cov": c, "_n": n}
    raise KeyError(name)


def value_table(names, nsamples, f32):
    """number -> (p, k) for every synthetic number of the handled topics (and the square roots of the covariances)"""
    ft = np.float32 if f32 else np.float64
    tab = {}
    for p, name in enumerate(names):
        if name not in HANDLED:
            continue
        for k in range(nsamples[p]):
            for f in range(1, 11):
                for i in range(N_MAX if f in (8, 9) else 4):
                    v = float(np.array(val(p, k, f, i), dtype=ft))
                    tab[v] = (p, k)
            for i in range(N_MAX):
                c = float(np.array(cov_val(p, k, i), dtype=ft))
                if c > 0:
                    tab[c] = (p, k); tab[math.sqrt(c)] = (p, k)
                elif c < 0:
                    tab[c] = (p, k)
    return tab


def identify(tab, data):
    """(p, k) of the sample most numbers of the message come from; (-1, -1) if none"""
    votes = {}
    for fn in data.dtype.names:
        if fn == "time":
            continue
        for v in np.asarray(data[fn], float).flatten():
            if math.isfinite(v) and v != 0.0 and float(v) in tab:
                votes[tab[float(v)]] = votes.get(tab[float(v)], 0) + 1
    if not votes:
        return (-1, -1)
    return max(sorted(votes), key=lambda pk: votes[pk])


def same(a, b):
    """|a - b| <= 1e-9 max(1, |b|) component-wise, NaN only where NaN is expected"""
    a = np.asarray(a, float).flatten(); b = np.asarray(b, float).flatten()
    if a.shape != b.shape:
        return False
    na, nb = np.isnan(a), np.isnan(b)
    if not np.array_equal(na, nb):
        return False
    if not np.all(np.isfinite(a[~na])):
        return False
    if np.all(nb):
        return True
    return bool(np.max(np.abs(a[~nb] - b[~nb])) <= TOL * max(1.0, float(np.max(np.abs(b[~nb])))))


UNTOUCHED = {"Imu": (), "Mag": (), "Attitude": ("r", "b"),
             "EstimatorStatus": ("cpu_predict", "cpu_mag", "cpu_accel", "n_x", "r_mag", "r_std_mag", "mag_ret", "r_accel", "r_std_accel",
                                 "beta_accel", "accel_ret")}


def data_clauses(name, data, want):
    """list of (clause, subcell, got, want) that FAIL for a message copied from a sample of log topic `name`"""
    bad = []
    for fn, w in want.items():
        if fn.startswith("_"):
            continue
        if fn not in data.dtype.names:
            bad.append((fn, "", None, np.asarray(w).tolist())); continue
        g = np.asarray(data[fn], float)
        if fn == "W":
            c, n = want["_cov"], want["_n"]
            for sub, sel in (("positive", c > 0), ("zero", c == 0), ("negative", c < 0), ("nan", np.isnan(c))):
                sel = sel & (np.arange(N_MAX) < n)
                if sel.any() and not same(g[sel], np.asarray(w)[sel]):
                    bad.append(("W_sqrt" if sub == "positive" else "W_copy", sub, g[sel].tolist(), np.asarray(w)[sel].tolist()))
            rest = np.arange(N_MAX) >= n
            if rest.any() and not same(g[rest], np.asarray(w)[rest]):
                bad.append(("W_beyond_n_states", "", g[rest].tolist(), None))
        elif fn == "x":
            n = want["_n"]
            if not same(g[:n], np.asarray(w)[:n]):
                bad.append(("x", "", g[:n].tolist(), np.asarray(w)[:n].tolist()))
            if n < N_MAX and not same(g[n:], np.asarray(w)[n:]):
                bad.append(("x_beyond_n_states", "", g[n:].tolist(), None))
        elif not same(g, w):
            bad.append((fn, "", g.tolist(), np.asarray(w).tolist()))
    return bad


# ------------------------------------------------------------------ one recorded run
_TMP = None


def _tmpfile():
    """an (empty) file the node can open; its content is never read (pyulog.ULog is the fake)"""
    global _TMP
    if _TMP is None or not os.path.exists(_TMP):
        fd, _TMP = tempfile.mkstemp(prefix="verif_g03_", suffix=".ulg")
        os.close(fd)
    return _TMP


def cleanup():
    global _TMP
    if _TMP and os.path.exists(_TMP):
        os.remove(_TMP)
    _TMP = None


class Budget(Exception):
    pass


def run_replay(cfg):
    """cfg: dict(tid, names [log topic names in data_list order], stamps [[us relative to base] per topic], base (us),
                 f32 (bool), nan (None | (p, k)))
    returns (lines, info); info["fails"] = failing data clauses, info["exc"] = None | (where, type, text)"""
    import simpy
    import pyulog
    import cyecca.sim.uros as uros
    from cyecca.sim import replay as rmod
    tid, names, stamps, base, f32 = cfg["tid"], list(cfg["names"]), [list(s) for s in cfg["stamps"]], int(cfg["base"]), bool(cfg["f32"])
    nan = tuple(cfg["nan"]) if cfg.get("nan") else None
    Data = pyulog.ULog.Data
    topics = [make_topic(Data, n, p, [base + s for s in stamps[p]], f32, nan[1] if nan and nan[0] == p else None)
              for p, n in enumerate(names)]
    allst = [s for ss in stamps for s in ss]
    t0 = min(allst) if allst else 0
    nev = len(allst)
    raw = []
    budget = [6 * nev + 20]

    def spend():
        budget[0] -= 1
        if budget[0] < 0:
            raise Budget("the node does not terminate (more waits / messages than six times the number of logged samples)")

    class FakeULog:
        Data = pyulog.ULog.Data

        def __init__(self, *a, **k):
            self.data_list = topics
            self.opened_with = a

    core = uros.Core()
    real_timeout = core.timeout

    def rec_timeout(delay=0, *a, **k):
        spend()
        raw.append(("wait", float(core.now), float(delay)))
        return real_timeout(delay, *a, **k)

    def rec_Timeout(env, delay=0, *a, **k):
        spend()
        raw.append(("wait", float(env.now), float(delay)))
        return simpy.Timeout(env, delay, *a, **k)
    core.timeout = rec_timeout
    ns = types.ModuleType("simpy_recording_proxy")
    ns.__dict__.update({k: v for k, v in vars(simpy).items() if not k.startswith("__")})
    ns.Timeout = rec_Timeout
    orig_ulog, orig_simpy = pyulog.ULog, rmod.simpy
    exc = None
    pubs = []
    try:
        pyulog.ULog = FakeULog
        rmod.simpy = ns
        try:
            node = rmod.ULogReplay(core, _tmpfile())
        except Exception as e:      # noqa: constructing the node failed
            exc = ("init", type(e).__name__, str(e)[:300])
            node = None
        pubs = [[t, getattr(p.msg_type, "__name__", str(p.msg_type))] for t, p in core._publishers.items() if t != "params"]
        if node is not None:
            for t, p in list(core._publishers.items()):
                if t == "params":
                    continue

                def cb(m, t=t):
                    spend()
                    raw.append(("msg", t, float(core.now), type(m).__name__, m.data.copy()))
                uros.Subscriber(core, t, p.msg_type, cb)
            try:
                core.run()
            except Exception as e:  # noqa: the node's process failed
                exc = ("run", type(e).__name__, str(e)[:300])
    finally:
        pyulog.ULog = orig_ulog
        rmod.simpy = orig_simpy

    # ---------------------------------------------------------------- projection into trace lines
    def rel(t):
        v = us(t)
        return v if v is not None else -777

    tab = value_table(names, [len(s) for s in stamps], f32)
    lines = [{"tid": tid, "e": "start", "names": names, "stamps": stamps, "pubs": pubs}]
    fails = []
    msgs_out = []
    for r in raw:
        if r[0] == "wait":
            _, now, delay = r
            lines.append({"tid": tid, "e": "wait", "now": rel(now), "until": rel(now + delay)})
        else:
            _, bus, now, ty, d = r
            p, k = identify(tab, d)
            ok = 0
            if p >= 0:
                is_nan = nan is not None and nan == (p, k)
                bad = data_clauses(names[p], d, expected(names[p], p, k, f32, is_nan))
                ok = int(not bad)
                for clause, sub, got, want in bad:
                    fails.append({"clause": clause, "cell": names[p] + ("/" + sub if sub else "") + ("/nan_sample" if is_nan else ""),
                                  "bus": bus, "p": p, "k": k, "got": got, "want": want})
                for fn in UNTOUCHED.get(ty, ()):
                    if fn in d.dtype.names and not np.all(np.isnan(np.asarray(d[fn], float))):
                        fails.append({"clause": "untouched_field_set", "cell": f"{ty}.{fn}", "bus": bus, "p": p, "k": k, "drift": True,
                                      "got": np.asarray(d[fn], float).tolist(), "want": None})
            st = us(float(d["time"])) if "time" in d.dtype.names else None
            lines.append({"tid": tid, "e": "pub", "now": rel(now), "bus": bus, "ty": ty, "stamp": st if st is not None else -777,
                          "src": p + 1, "k": k + 1, "ok": ok})
            msgs_out.append((bus, ty, rel(now), p, k))
    lines.append({"tid": tid, "e": "end", "now": rel(core.now), "exc": exc[1] if exc else ""})
    info = {"tid": tid, "lines": len(lines), "fails": fails, "exc": exc, "msgs": msgs_out, "pubs": pubs, "t0": t0,
            "n": {k: sum(1 for ln in lines if ln["e"] == k) for k in ("wait", "pub")}, "end": rel(core.now), "now_float": float(core.now)}
    return lines, info
