"""Closed-loop runs of the packaged attitude simulator + MRP estimator (launch.launch_sim) with
recording proxies around the estimator equations (no source hook needed: launch.eqs is a module
level dict), and projection of the run into integer-coded NDJSON trace lines for
spec/AttitudeLoopTrace.tla.  Used by C11 (step contracts on every closed-loop step) and C12."""
import io, json, math, os, contextlib
import numpy as np


def _finite(*arrs):
    return int(all(np.all(np.isfinite(np.array(a, float))) for a in arrs))


def _same_bits(a, b):
    a = np.array(a, float); b = np.array(b, float)
    return int(a.shape == b.shape and a.tobytes() == b.tobytes())


def _pdec(W, Wp):
    W = np.array(W, float); Wp = np.array(Wp, float)
    if not (np.all(np.isfinite(W)) and np.all(np.isfinite(Wp))):
        return 0
    P = W @ W.T; Pp = Wp @ Wp.T
    ev = np.linalg.eigvalsh((P - Pp + (P - Pp).T) / 2)
    return int(ev.min() >= -1e-10 * max(1.0, float(np.max(np.abs(P)))))


def _tril_ok(W):
    W = np.array(W, float)
    return int(np.all(np.isfinite(W)) and np.max(np.abs(np.triu(W, 1))) == 0.0)


def quat_angle(q1, q2):
    d = abs(float(np.dot(q1, q2))) / (np.linalg.norm(q1) * np.linalg.norm(q2))
    return 2.0 * math.acos(min(1.0, d))


def rot_of(q):
    w, x, y, z = q
    return np.array([[w*w + x*x - y*y - z*z, 2*(x*y - w*z), 2*(x*z + w*y)],
                     [2*(x*y + w*z), w*w - x*x + y*y - z*z, 2*(y*z - w*x)],
                     [2*(x*z - w*y), 2*(y*z + w*x), w*w - x*x - y*y + z*z]]) / float(np.dot(q, q))


def run_loop(cfg):
    """cfg: dict(tid, x0 (6 floats: mrp, bias), initialize, decl, incl, dt_sim, dt_imu, dt_mag, dt_log, tf, row_every)
    returns (lines, summary)"""
    from cyecca.estimate.attitude import launch
    events = []
    orig = launch.eqs["mrp"]

    def wrap(name, f):
        def g(*a):
            out = f(*a)
            if name == "predict":
                t, x, W, om, sg, srw, dt = a
                x1, W1 = out
                r = np.array(x1).flatten()[:3]
                events.append({"e": "predict", "t": float(t), "dt_us": int(round(float(dt) * 1e6)), "finite": _finite(x1, W1),
                               "normok": int(float(r @ r) <= 1 + 1e-9), "tril": _tril_ok(W1)})
            elif name in ("correct_accel", "correct_mag"):
                x, W = a[0], a[1]
                ret = float(out[5])
                events.append({"e": "accel" if name == "correct_accel" else "mag", "ret": int(ret) if ret == ret else -1,
                               "unchanged": int(_same_bits(x, out[0]) and _same_bits(W, out[1])),
                               "finite": _finite(*out), "pdec": _pdec(W, out[1])})
            elif name == "initialize":
                ret = float(out[1])
                events.append({"e": "init", "ret": int(ret) if ret == ret else -1, "finite": _finite(*out)})
            return out
        return g
    proxies = {k: (wrap(k, f) if k in ("predict", "correct_accel", "correct_mag", "initialize") else f) for k, f in orig.items()}
    params = {"sim/enable_noise": False, "sim/mag_decl": cfg["decl"], "mrp/mag_decl": cfg["decl"], "sim/mag_incl": cfg["incl"],
              "sim/dt_sim": cfg["dt_sim"], "sim/dt_imu": cfg["dt_imu"], "sim/dt_mag": cfg["dt_mag"], "logger/dt": cfg["dt_log"]}
    # settings a user writes as Python ints stay ints (mag_decl = 0, mag_incl = 0): they are legitimate values of float-valued parameters
    for k_ in ("sim/mag_decl", "mrp/mag_decl", "sim/mag_incl"):
        if float(params[k_]) == int(params[k_]):
            params[k_] = int(params[k_])
    p = {"tf": cfg["tf"], "estimators": ["mrp"], "x0": list(cfg["x0"]), "initialize": bool(cfg["initialize"]), "params": params}
    # the estimator callbacks run inside core.run; tag events with the simulation time via a clock probe
    import cyecca.sim.uros as uros
    clock = {}
    orig_run = uros.Core.run

    def run_probe(self, *a, **k):
        clock["core"] = self
        return orig_run(self, *a, **k)
    launch.eqs["mrp"] = proxies
    uros.Core.run = run_probe
    exc = None
    # events need the time: wrap again to read core.now lazily
    def stamp(f):
        def g(*a):
            n0 = len(events)
            out = f(*a)
            for ev in events[n0:]:
                ev["t_us"] = int(round(clock["core"].now * 1e6)) if "core" in clock else 0
            return out
        return g
    launch.eqs["mrp"] = {k: (stamp(f) if k in ("predict", "correct_accel", "correct_mag", "initialize") else f) for k, f in proxies.items()}
    try:
        with contextlib.redirect_stdout(io.StringIO()):
            log = launch.launch_sim(p)
    except Exception as e:      # noqa
        exc = repr(e)
        log = None
    finally:
        launch.eqs["mrp"] = orig
        uros.Core.run = orig_run
    tid = cfg["tid"]
    b_true = np.array(cfg["x0"][3:6], float)
    lines = [{"tid": tid, "e": "start", "init": int(bool(cfg["initialize"])), "b0": [int(round(abs(v) * 1e6)) for v in b_true],
              "t_us": 0, "dt_imu_us": int(round(cfg["dt_imu"] * 1e6))}]
    summ = {"tid": tid, "exception": exc, "events": len(events)}
    if exc is not None:
        lines.append({"tid": tid, "e": "exception", "t_us": 0})
        return lines, summ
    g = 9.8; mstr = 0.1
    rows = []
    every = cfg.get("row_every", 10)
    worst_att_5 = 0.0; worst_b_15 = 0.0
    # sampled rows (every `every`-th) plus EVERY row in which the logged truth and the logged estimate carry different
    # time stamps: the log array is the observable of the property, and a row that pairs a fresher truth with an older
    # estimate shows an attitude error of rate x skew
    idx = set(range(0, len(log), every))
    for i in range(len(log)):
        sa_, ea_ = log[i]["sim_attitude"], log[i]["mrp_attitude"]
        if np.isfinite(sa_["time"]) and np.isfinite(ea_["time"]) and sa_["time"] != ea_["time"]:
            idx.add(i)
    for i in sorted(idx):
        r = log[i]
        t = float(r["time"])
        sa = r["sim_attitude"]; ea = r["mrp_attitude"]; imu = r["imu"]; mag = r["mag"]
        nan = 0
        row = {"tid": tid, "e": "row", "t_us": int(round(t * 1e6)), "att": -1, "b": [-1, -1, -1], "am": -1, "ad": -1, "mm": -1, "md": -1, "nan": 0}
        if np.isfinite(sa["time"]) and np.isfinite(ea["time"]):
            qe = np.array(ea["q"], float); qt = np.array(sa["q"], float)
            if not (np.all(np.isfinite(qe)) and np.all(np.isfinite(ea["b"]))):
                nan = 1
            else:
                att = quat_angle(qt, qe)
                row["att"] = int(round(att * 1e6))
                be = np.abs(np.array(sa["b"], float) - np.array(ea["b"], float))
                row["b"] = [int(round(v * 1e6)) for v in be]
                if t >= 5: worst_att_5 = max(worst_att_5, att)
                if t >= 15: worst_b_15 = max(worst_b_15, float(be.max()))
        if np.isfinite(sa["time"]) and np.isfinite(imu["time"]) and imu["time"] == sa["time"]:
            y = np.array(imu["accel"], float)
            if not np.all(np.isfinite(y)):
                nan = 1
            else:
                want = rot_of(np.array(sa["q"], float)).T @ np.array([0, 0, -g])
                row["am"] = int(round(abs(np.linalg.norm(y) - g) / g * 1e9))
                row["ad"] = int(round(min(float(np.max(np.abs(y - want))) / g, 2.0) * 1e9))
        if np.isfinite(sa["time"]) and np.isfinite(mag["time"]) and mag["time"] == sa["time"]:
            y = np.array(mag["mag"], float)
            if not np.all(np.isfinite(y)):
                nan = 1
            else:
                cd, sd = math.cos(cfg["decl"]), math.sin(cfg["decl"]); ci, si = math.cos(cfg["incl"]), math.sin(cfg["incl"])
                Bn = mstr * np.array([cd * ci, sd * ci, si])
                want = rot_of(np.array(sa["q"], float)).T @ Bn
                row["mm"] = int(round(abs(np.linalg.norm(y) - mstr) / mstr * 1e9))
                row["md"] = int(round(min(float(np.max(np.abs(y - want))) / mstr, 2.0) * 1e9))
        row["nan"] = nan
        rows.append(row)
    evl = []
    for ev in events:
        d = {"tid": tid}; d.update({k: v for k, v in ev.items() if k != "t"})
        evl.append(d)
    merged = sorted(rows + evl, key=lambda d: (d["t_us"], 0 if d["e"] != "row" else 1))
    lines += merged
    lines.append({"tid": tid, "e": "end", "t_us": int(round(cfg["tf"] * 1e6))})
    summ.update({"worst_att_after_5s": worst_att_5, "worst_bias_after_15s": worst_b_15, "rows": len(rows)})
    return lines, summ


def run_many(cfgs, procs=8):
    import multiprocessing as mp
    if procs <= 1 or len(cfgs) <= 1:
        return [run_loop(c) for c in cfgs]
    from cyecca.estimate.attitude import launch  # noqa: build the equations once before forking
    with mp.get_context("fork").Pool(min(procs, len(cfgs))) as pool:
        return pool.map(run_loop, cfgs)
