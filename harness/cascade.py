"""C17 -- closed-loop harness: the shipped quadrotor model under the shipped control cascade.

What is reproduced (scripts/rdd2_sim.py cannot be imported: it needs ROS)
-----------------------------------------------------------------------
`Simulator.timer_callback` does, every dt = 1/100 s:
    integrate_simulation()      x <- flow of model['dae'] over dt with u held (cvodes)
    update_fake_estimator()     q, omega, pw, vb <- x ;  vw = rotate_vector_b_to_w(q, vb)
    update_controller()         input_mode "velocity":
        psi_sp, psi_vel_sp, pw_sp, vw_sp, aw_sp, qc_sp = input_velocity(dt, psi_sp, pw_sp, pw, aetr, False)
        "mellinger": thrust, q_sp, z_i = position_control(thrust_trim, pw_sp, vw_sp, aw_sp, qc_sp, pw, vw, z_i, dt)
                     omega_sp       = attitude_control(k_p_att, q, q_sp)
        "loglinear": zeta           = se23_error(pw, vw, q, pw_sp, vw_sp, qc_sp)
                     thrust, q_sp, z_i = se23_position_control(thrust_trim, k_p_att, zeta, aw_sp, qc_sp, z_i, dt)
                     omega_sp       = so3_attitude_control(k_p_att, q, q_sp)
        M, i0, e0, de0, alpha = attitude_rate_control(kp, ki, kd, f_cut, i_max, omega, omega_sp, i0, e0, de0, dt)
        u, Fp, Fm, Ft, Msat   = f_alloc(F_max, l, CM, CT, thrust, M)
(the call to mr_ref_traj in update_controller discards its result and is not reproduced).
The harness writes exactly this wiring by hand below (`build_period`); the GAINS and CONSTANTS
(dt, F_max, k_p_att, kp, ki, kd, f_cut, i_max, thrust_trim, l, CM, CT, initial controller
memory, default modes) are extracted from the script's source text with `ast` at run time, and
the ARGUMENT LISTS of the eight calls above are compared with the script's text (a changed
wiring in the script is a MachineryError: the harness must then be re-read against the script).

Integration scheme: zero-order hold of u over the control period (as the script), classical
RK4 on model['f'] with NSUB = 10 sub-steps of 1 ms per 10 ms control period (1 kHz).

All the functions (plant f, controllers, allocator) are the CasADi functions derived from the
working tree named by VERIF_REPO; they are composed symbolically (SX call = same expression
graph) into one function per mode for one control period and iterated with `mapaccum`.

Trace line (NDJSON, integers only, one per control period; line k is the state at t = k*dt and the
motor command computed from it; line 0 is the launch state with the script's initial u = 0):
  tid k t(ms) mode  e ex ey ez (mm, to the CURRENT commanded set-point pw_sp)  sp (mm, shift of pw_sp
  from the launch set-point)  tilt yaw (mrad)  rate (mrad/s)  m[4] lim (milli-rad/s)
  ri[3] imax[3] (1e-6 rad)  zi zmax (1e-6 m s)  alt (mm above the ground plane)  nan (0/1)
and on line 0 additionally  ic (the launch configuration: mode, attitude error q, commanded heading
yaw, launch attitude q0 = yaw*q as signed integer quaternions, off, vel, rate) and n (number of
lines of the trace).
"""
from __future__ import annotations

import ast
import json
import math
import os
import warnings

import numpy as np

from harness.core import MachineryError

NSUB = 10                 # RK4 sub-steps per control period
T_END_S = 30.0            # simulated seconds per run
SETPOINT = (0.0, 0.0, 10.0)   # hover set-point (10 m above the model's ground plane z = 0)
SETPOINTS = (SETPOINT, (30.0, -20.0, 25.0))     # Cascade!HoverPositions, selected by ic["spi"]


def setpoint_of(ic):
    return SETPOINTS[int(ic.get("spi", 0))]
INT_CLIP = 2_000_000_000  # every logged integer stays below 2^31
MODES = ("mellinger", "loglinear")

REQUIRED_LOCALS = ("thrust_trim", "thrust_delta", "F_max", "l", "CM", "CT", "k_p_att",
                   "kp", "ki", "kd", "f_cut", "i_max")
REQUIRED_ATTRS = ("dt", "input_mode", "control_mode", "i0", "e0", "de0", "z_i", "psi_sp",
                  "pw_sp", "input_aetr", "u", "use_estimator")

# argument lists (source text) of the calls the harness reproduces; compared with the script
EXPECTED_WIRING = {
    "input_velocity": (["self.psi_sp", "self.psi_vel_sp", "self.pw_sp", "self.vw_sp", "self.aw_sp", "self.qc_sp"],
                       ["self.dt", "self.psi_sp", "self.pw_sp", "self.pw", "self.input_aetr", "reset_position"]),
    "position_control": (["thrust", "self.q_sp", "self.z_i"],
                         ["thrust_trim", "self.pw_sp", "self.vw_sp", "self.aw_sp", "self.qc_sp", "self.pw",
                          "self.vw", "self.z_i", "self.dt"]),
    "attitude_control": (["omega_sp"], ["k_p_att", "self.q", "self.q_sp"]),
    "se23_error": (["zeta"], ["self.pw", "self.vw", "self.q", "self.pw_sp", "self.vw_sp", "self.qc_sp"]),
    "se23_position_control": (["thrust", "self.q_sp", "self.z_i"],
                              ["thrust_trim", "k_p_att", "zeta", "self.aw_sp", "self.qc_sp", "self.z_i", "self.dt"]),
    "so3_attitude_control": (["omega_sp"], ["k_p_att", "self.q", "self.q_sp"]),
    "attitude_rate_control": (["M", "i1", "e1", "de1", "alpha"],
                              ["kp", "ki", "kd", "f_cut", "i_max", "self.omega", "omega_sp", "self.i0", "self.e0",
                               "self.de0", "self.dt"]),
    "f_alloc": (["self.u", "Fp", "Fm", "Ft", "Msat"], ["F_max", "l", "CM", "CT", "thrust", "M"]),
    "rotate_vector_b_to_w": (["self.vw"], ["self.q", "self.vb"]),
}
EXPECTED_FEEDBACK = {"self.i0": "i1", "self.e0": "e1", "self.de0": "de1"}
EXPECTED_TICK = ["integrate_simulation", "publish_state", "update_fake_estimator", "update_controller"]


def repo_root():
    return os.environ.get("VERIF_REPO", "/repo")


# ------------------------------------------------------------------------------------------
# extraction of gains / constants / wiring fingerprint from scripts/rdd2_sim.py (source text)
# ------------------------------------------------------------------------------------------
class _Unsupported(Exception):
    pass


def _dotted(node):
    if isinstance(node, ast.Name):
        return node.id
    if isinstance(node, ast.Attribute):
        return _dotted(node.value) + "." + node.attr
    raise _Unsupported(ast.dump(node))


def _ev(node, env, attrs, params):
    """evaluate the tiny expression language used by the script's constant assignments"""
    if isinstance(node, ast.Constant):
        return node.value
    if isinstance(node, ast.Name):
        if node.id in env:
            return env[node.id]
        raise _Unsupported(node.id)
    if isinstance(node, ast.Attribute):
        d = _dotted(node)
        if d.startswith("self.") and d[5:] in attrs:
            return attrs[d[5:]]
        raise _Unsupported(d)
    if isinstance(node, (ast.List, ast.Tuple)):
        return [_ev(e, env, attrs, params) for e in node.elts]
    if isinstance(node, ast.UnaryOp) and isinstance(node.op, (ast.USub, ast.UAdd)):
        v = _ev(node.operand, env, attrs, params)
        return -v if isinstance(node.op, ast.USub) else v
    if isinstance(node, ast.BinOp):
        a, b = _ev(node.left, env, attrs, params), _ev(node.right, env, attrs, params)
        if isinstance(node.op, ast.Add):
            return a + b
        if isinstance(node.op, ast.Sub):
            return a - b
        if isinstance(node.op, ast.Mult):
            return a * b
        if isinstance(node.op, ast.Div):
            return a / b
        if isinstance(node.op, ast.Pow):
            return a ** b
        raise _Unsupported(ast.dump(node.op))
    if isinstance(node, ast.Call):
        fn = _dotted(node.func)
        args = node.args
        if fn in ("np.array", "numpy.array"):
            return np.array(_ev(args[0], env, attrs, params), dtype=float)
        if fn in ("np.zeros", "numpy.zeros"):
            return np.zeros(_ev(args[0], env, attrs, params), dtype=float)
        if fn in ("np.ones", "numpy.ones"):
            return np.ones(_ev(args[0], env, attrs, params), dtype=float)
        if fn == "self.get_param_by_name":
            name = _ev(args[0], env, attrs, params)
            if name not in params:
                raise MachineryError(f"rdd2_sim.py asks for plant parameter {name!r} which derive_model() does not define")
            return float(params[name])
        if fn == "float":
            return float(_ev(args[0], env, attrs, params))
        raise _Unsupported(fn)
    raise _Unsupported(type(node).__name__)


def _eqs_call(node):
    """self.eqs["name"](args) -> (name, [arg source]) or None"""
    if isinstance(node, ast.Call) and isinstance(node.func, ast.Subscript):
        try:
            if _dotted(node.func.value) == "self.eqs" and isinstance(node.func.slice, ast.Constant):
                return node.func.slice.value, [ast.unparse(a) for a in node.args]
        except _Unsupported:
            return None
    return None


def _targets(t):
    if isinstance(t, (ast.Tuple, ast.List)):
        return [ast.unparse(e) for e in t.elts]
    return [ast.unparse(t)]


def extract_sim_constants(p_defaults: dict, script: str | None = None) -> dict:
    """Parse scripts/rdd2_sim.py; return the constants of `update_controller`, the initial
    controller memory of `__init__` and check the wiring fingerprint.  Nothing is executed."""
    script = script or os.path.join(repo_root(), "scripts", "rdd2_sim.py")
    try:
        src = open(script).read()
        tree = ast.parse(src)
    except (OSError, SyntaxError) as ex:
        raise MachineryError(f"cannot read/parse {script}: {ex}") from ex
    cls = next((n for n in tree.body if isinstance(n, ast.ClassDef) and n.name == "Simulator"), None)
    if cls is None:
        raise MachineryError("rdd2_sim.py: class Simulator not found")
    fns = {n.name: n for n in cls.body if isinstance(n, ast.FunctionDef)}
    for need in ("__init__", "update_controller", "update_fake_estimator", "timer_callback"):
        if need not in fns:
            raise MachineryError(f"rdd2_sim.py: Simulator.{need} not found")

    # --- __init__: self.X = <constant expression>
    attrs = {}
    for st in ast.walk(fns["__init__"]):
        if isinstance(st, ast.Assign) and len(st.targets) == 1 and isinstance(st.targets[0], ast.Attribute):
            try:
                d = _dotted(st.targets[0])
            except _Unsupported:
                continue
            if d.startswith("self.") and d.count(".") == 1:
                try:
                    attrs[d[5:]] = _ev(st.value, {}, attrs, p_defaults)
                except _Unsupported:
                    pass
    miss = [a for a in REQUIRED_ATTRS if a not in attrs]
    if miss:
        raise MachineryError(f"rdd2_sim.py: expected assignments self.{miss} in Simulator.__init__ not found / not constant")

    # --- update_controller: top-level  name = <constant expression>
    env = {}
    for st in fns["update_controller"].body:
        if isinstance(st, ast.Assign) and len(st.targets) == 1 and isinstance(st.targets[0], ast.Name):
            try:
                env[st.targets[0].id] = _ev(st.value, env, attrs, p_defaults)
            except _Unsupported:
                pass
    miss = [a for a in REQUIRED_LOCALS if a not in env]
    if miss:
        raise MachineryError(f"rdd2_sim.py: expected assignments {miss} in update_controller not found / not constant")

    # --- wiring fingerprint
    calls = {}
    feedback = {}
    for fn in ("update_controller", "update_fake_estimator"):
        for st in ast.walk(fns[fn]):
            if isinstance(st, ast.Assign) and len(st.targets) == 1:
                c = _eqs_call(st.value)
                if c:
                    calls.setdefault(c[0], []).append((_targets(st.targets[0]), c[1]))
                elif isinstance(st.value, ast.Name) and isinstance(st.targets[0], ast.Attribute):
                    feedback[ast.unparse(st.targets[0])] = st.value.id
    for name, (tg, args) in EXPECTED_WIRING.items():
        if name not in calls:
            raise MachineryError(f"rdd2_sim.py: call self.eqs[{name!r}] not found (wiring changed)")
        if any(c != (tg, args) for c in calls[name]):        # every occurrence (velocity and bezier/auto-level branches alike)
            raise MachineryError(f"rdd2_sim.py: wiring of {name} changed: script has {calls[name]}, harness reproduces {(tg, args)}")
    for k, v in EXPECTED_FEEDBACK.items():
        if feedback.get(k) != v:
            raise MachineryError(f"rdd2_sim.py: controller memory feedback {k} = {feedback.get(k)} (harness reproduces {v})")
    tick = []
    for st in sorted((n for n in ast.walk(fns["timer_callback"]) if isinstance(n, ast.Call)),
                     key=lambda n: (n.lineno, n.col_offset)):          # source order (ast.walk is breadth-first)
        if True:
            try:
                d = _dotted(st.func)
            except _Unsupported:
                continue
            if d.startswith("self.") and d[5:] in ("integrate_simulation", "publish_state", "update_estimator",
                                                    "update_fake_estimator", "update_controller"):
                tick.append(d[5:])
    use_est = bool(attrs["use_estimator"])
    tick = [t for t in tick if t != ("update_fake_estimator" if use_est else "update_estimator")]
    if use_est or tick != EXPECTED_TICK:
        raise MachineryError(f"rdd2_sim.py: timer_callback order {tick} / use_estimator={use_est} differs from the reproduced "
                             f"{EXPECTED_TICK} with the fake estimator")
    if attrs["input_mode"] != "velocity":
        raise MachineryError(f"rdd2_sim.py: default input_mode is {attrs['input_mode']!r}, the harness reproduces 'velocity'")

    def vec3(v, what):
        a = np.asarray(v, float).reshape(-1)
        if a.size == 1:
            a = np.repeat(a, 3)       # the script starts with the scalar self.i0 = 0.0 (CasADi broadcasts it)
        if a.size != 3:
            raise MachineryError(f"rdd2_sim.py: {what} is not a 3-vector")
        return a

    out = {
        "script": script,
        "dt": float(attrs["dt"]),
        "F_max": float(env["F_max"]), "l": float(env["l"]), "CM": float(env["CM"]), "CT": float(env["CT"]),
        "thrust_trim": float(env["thrust_trim"]), "thrust_delta": float(env["thrust_delta"]),
        "k_p_att": vec3(env["k_p_att"], "k_p_att"), "kp": vec3(env["kp"], "kp"), "ki": vec3(env["ki"], "ki"),
        "kd": vec3(env["kd"], "kd"), "f_cut": float(env["f_cut"]), "i_max": vec3(env["i_max"], "i_max"),
        "i0": vec3(attrs["i0"], "i0"), "e0": vec3(attrs["e0"], "e0"), "de0": vec3(attrs["de0"], "de0"),
        "z_i": float(attrs["z_i"]), "psi_sp": float(attrs["psi_sp"]),
        "u0": np.asarray(attrs["u"], float).reshape(-1),
        "input_aetr": np.asarray(attrs["input_aetr"], float).reshape(-1),
        "default_control_mode": attrs["control_mode"],
    }
    if out["u0"].size != 4 or out["input_aetr"].size != 4:
        raise MachineryError("rdd2_sim.py: self.u / self.input_aetr are not 4-vectors")
    if not (out["dt"] > 0 and out["F_max"] > 0 and out["CT"] > 0):
        raise MachineryError("rdd2_sim.py: dt, F_max, CT must be positive")
    return out


def constants_summary(c: dict) -> dict:
    return {k: (v.tolist() if isinstance(v, np.ndarray) else v) for k, v in c.items()}


# ------------------------------------------------------------------------------------------
# the closed loop as CasADi functions (one control period per mode)
# ------------------------------------------------------------------------------------------
# memory vector: u(4) i0(3) e0(3) de0(3) z_i(1) psi_sp(1) pw_sp(3)           = 18
MEM = {"u": slice(0, 4), "i0": slice(4, 7), "e0": slice(7, 10), "de0": slice(10, 13), "z_i": slice(13, 14),
       "psi_sp": slice(14, 15), "pw_sp": slice(15, 18)}
NMEM = 18
# extra outputs of one period (for the nan flag): thrust(1) q_sp(4) omega_sp(3) M(3) Fp(4)
NAUX = 15


class Loop:
    """built once per process"""

    def __init__(self):
        import casadi as ca
        warnings.filterwarnings("ignore", category=FutureWarning)
        import contextlib, io
        with contextlib.redirect_stdout(io.StringIO()):          # rdd2_loglinear prints at import
            from cyecca.models import quadrotor, rdd2, rdd2_loglinear
        self.ca = ca
        self.model = quadrotor.derive_model()
        self.p = np.array([float(v) for v in self.model["p_defaults"].values()])
        # scripts/rdd2_sim.py fills the parameter vector POSITIONALLY from p_defaults.values(); the harness does exactly
        # the same.  If the dictionary order and the symbolic parameter vector disagree the plant runs with permuted
        # parameters -- that is the simulator's behaviour and the closed loop below is judged with it (no exception here).
        self.p_order_mismatch = list(self.model["p_defaults"].keys()) != [self.model["p"][i].name() for i in range(self.model["p"].shape[0])]
        self.xi = self.model["x_index"]
        self.script_drift = None
        try:
            self.C = extract_sim_constants(self.model["p_defaults"])
        except MachineryError as ex:
            # the script was restructured beyond what the static reader understands (renamed locals, gains moved into a
            # table, another tick layout).  That is not a verdict and not a broken tool: the loop is closed with the gains
            # and the wiring pinned from the reference tree (harness/cascade_pinned.json) and the difference is reported
            # as SPEC-DRIFT by the check.
            pinned = os.path.join(os.path.dirname(os.path.abspath(__file__)), "cascade_pinned.json")
            if not os.path.exists(pinned):
                raise
            raw = json.load(open(pinned))
            self.C = {k: (np.asarray(v, float) if isinstance(v, list) else v) for k, v in raw.items()}
            self.script_drift = str(ex)
        self.cst_idx, parts, k0 = {}, [], 0
        for name in ("input_aetr", "k_p_att", "thrust_trim", "kp", "ki", "kd", "f_cut", "i_max", "F_max", "l", "CM", "CT"):
            v = np.atleast_1d(np.asarray(self.C[name], float)).flatten()
            self.cst_idx[name] = (k0, k0 + len(v)); k0 += len(v); parts.append(v)
        self.cst = np.concatenate(parts)
        eqs = {}
        eqs.update(rdd2.derive_attitude_rate_control())
        eqs.update(rdd2.derive_attitude_control())
        eqs.update(rdd2.derive_position_control())
        eqs.update(rdd2.derive_input_velocity())
        eqs.update(rdd2.derive_control_allocation())
        eqs.update(rdd2.derive_common())
        eqs.update(rdd2_loglinear.derive_se23_error())
        eqs.update(rdd2_loglinear.derive_so3_attitude_control())
        eqs.update(rdd2_loglinear.derive_outerloop_control())
        self.eqs = eqs
        # bound of the z integrator: module-level constant next to each outer loop
        try:
            self.zmax = {"mellinger": float(rdd2.z_integral_max), "loglinear": float(rdd2_loglinear.z_integral_max)}
        except AttributeError as ex:
            raise MachineryError(f"z_integral_max not found in rdd2 / rdd2_loglinear: {ex}") from ex
        self.N = int(round(T_END_S / self.C["dt"]))
        self.period = {m: self.build_period(m) for m in MODES}
        self.traj = {m: self.period[m].mapaccum("traj_" + m, self.N, 2) for m in MODES}
        self.lim = math.sqrt(self.C["F_max"] / self.C["CT"])

    # state access by NAME (layout comes from the model, not from the harness)
    def xs(self, x, name, n):
        return self.ca.vertcat(*[x[self.xi[f"{name}_{i}"]] for i in range(n)])

    def build_period(self, mode):
        ca, C, eqs = self.ca, self.C, self.eqs
        x = ca.SX.sym("x", self.model["x"].shape[0])
        mem = ca.SX.sym("mem", NMEM)
        # the plant parameters are a RUN-TIME input of the period function, as they are for the simulator's integrator:
        # folded in as constants, CasADi simplifies 0*expr to 0 and a NaN of the real run (0 * NaN) disappears
        p = ca.SX.sym("p", len(self.p))
        # ... and so are the script's constants (sticks, gains, limits): the simulator passes them as numbers at every
        # tick, so 0 * NaN stays NaN there; as folded constants a zero stick would erase it
        cst = ca.SX.sym("cst", len(self.cst))
        def cs(name):
            a, b = self.cst_idx[name]
            return cst[a:b]
        f = self.model["f"]
        dt = C["dt"]
        u = mem[MEM["u"]]
        # integrate_simulation: u held over the period; RK4, NSUB sub-steps
        h = dt / NSUB
        xk = x
        for _ in range(NSUB):
            k1 = f(xk, u, p)
            k2 = f(xk + h / 2 * k1, u, p)
            k3 = f(xk + h / 2 * k2, u, p)
            k4 = f(xk + h * k3, u, p)
            xk = xk + h / 6 * (k1 + 2 * k2 + 2 * k3 + k4)
        x1 = xk
        # update_fake_estimator
        q = self.xs(x1, "quaternion_wb", 4)
        omega = self.xs(x1, "omega_wb_b", 3)
        pw = self.xs(x1, "position_op_w", 3)
        vb = self.xs(x1, "velocity_w_p_b", 3)
        _NRES = {"input_velocity": 6, "position_control": 3, "se23_position_control": 3, "attitude_rate_control": 5, "f_alloc": 5}

        class _First(dict):          # results appended to a controller function are none of the loop's business
            def __getitem__(self_, k):
                f_ = dict.__getitem__(self_, k)
                n_ = _NRES.get(k)
                if n_ is None or f_.n_out() <= n_:
                    return f_
                return lambda *a, _f=f_, _n=n_: _f(*a)[:_n]
        eqs = _First(eqs)
        vw = eqs["rotate_vector_b_to_w"](q, vb)
        # update_controller, input_mode == "velocity"
        aetr = cs("input_aetr")
        reset_position = False
        psi_sp, psi_vel_sp, pw_sp, vw_sp, aw_sp, qc_sp = eqs["input_velocity"](
            dt, mem[MEM["psi_sp"]], mem[MEM["pw_sp"]], pw, aetr, reset_position)
        z_i = mem[MEM["z_i"]]
        k_p_att = cs("k_p_att")
        if mode == "mellinger":
            thrust, q_sp, z_i1 = eqs["position_control"](cs("thrust_trim"), pw_sp, vw_sp, aw_sp, qc_sp, pw, vw, z_i, dt)
            omega_sp = eqs["attitude_control"](k_p_att, q, q_sp)
        elif mode == "loglinear":
            zeta = eqs["se23_error"](pw, vw, q, pw_sp, vw_sp, qc_sp)
            thrust, q_sp, z_i1 = eqs["se23_position_control"](cs("thrust_trim"), k_p_att, zeta, aw_sp, qc_sp, z_i, dt)
            omega_sp = eqs["so3_attitude_control"](k_p_att, q, q_sp)
        else:
            raise MachineryError("unknown control mode " + mode)
        M, i1, e1, de1, alpha = eqs["attitude_rate_control"](
            cs("kp"), cs("ki"), cs("kd"), cs("f_cut"), cs("i_max"), omega, omega_sp,
            mem[MEM["i0"]], mem[MEM["e0"]], mem[MEM["de0"]], dt)
        u1, Fp, Fm, Ft, Msat = eqs["f_alloc"](cs("F_max"), cs("l"), cs("CM"), cs("CT"), thrust, M)
        mem1 = ca.vertcat(u1, i1, e1, de1, z_i1, psi_sp, pw_sp)
        aux = ca.vertcat(thrust, q_sp, omega_sp, M, Fp)
        assert mem1.shape[0] == NMEM and aux.shape[0] == NAUX
        # mapaccum: first n_accum inputs/outputs are the accumulated state; repeat them as plain outputs
        return ca.Function("period_" + mode, [x, mem, p, cst], [x1, mem1, aux], ["x", "mem", "p", "cst"], ["x1", "mem1", "aux"])

    # --------------------------------------------------------------------------------------
    def launch_state(self, ic):
        """ic = {mode, q, yaw, q0 = yaw*q (signed integer quaternions), off, vel, rate} -> (x0, mem0).
        The launch attitude is q0/|q0| (the embedding harness.lie.so3_param("quat", .)), the commanded
        heading psi_sp = 2 atan2(yaw_z, yaw_w); for yaw = identity this is the script's initial psi_sp."""
        x0 = np.zeros(len(self.xi))
        for k, v in self.model["x0_defaults"].items():
            x0[self.xi[k]] = float(v)
        from harness.lie import so3_param
        quat = so3_param("quat", [int(c) for c in ic["q0"]])
        yw, yz = int(ic["yaw"][0]), int(ic["yaw"][3])
        if int(ic["yaw"][1]) or int(ic["yaw"][2]) or (yw == 0 and yz == 0):
            raise MachineryError(f"launch configuration: yaw {ic['yaw']} is not a z-axis quaternion")
        psi = 2.0 * math.atan2(yz, yw)
        psi = math.atan2(math.sin(psi), math.cos(psi))        # (-pi, pi]
        for i in range(3):
            x0[self.xi[f"position_op_w_{i}"]] = setpoint_of(ic)[i] + float(ic["off"][i])
            x0[self.xi[f"velocity_w_p_b_{i}"]] = float(ic["vel"][i])
            x0[self.xi[f"omega_wb_b_{i}"]] = float(ic["rate"][i])
        for i in range(4):
            x0[self.xi[f"quaternion_wb_{i}"]] = quat[i]
        C = self.C
        psi_sp = C["psi_sp"] if yz == 0 and yw > 0 else psi
        mem0 = np.concatenate([C["u0"], C["i0"], C["e0"], C["de0"], [C["z_i"]], [psi_sp], np.array(setpoint_of(ic))])
        return x0, mem0

    def simulate(self, ic):
        """returns X (nx, N+1), MEM (NMEM, N+1), AUX (NAUX, N+1; column 0 = nan-free zeros)"""
        x0, mem0 = self.launch_state(ic)
        F = self.traj[ic["mode"]]
        r = F(x0, mem0, np.tile(self.p[:, None], (1, self.N)), np.tile(self.cst[:, None], (1, self.N)))
        X = np.hstack([x0[:, None], np.array(r[0])])
        Mm = np.hstack([mem0[:, None], np.array(r[1])])
        A = np.hstack([np.zeros((NAUX, 1)), np.array(r[2])])
        return X, Mm, A

    # --------------------------------------------------------------------------------------
    def observe(self, ic, tid, X, Mm, A):
        """integer-coded trace lines + float summary"""
        n = X.shape[1]
        idx = lambda name, k: [self.xi[f"{name}_{i}"] for i in range(k)]
        pw = X[idx("position_op_w", 3)]
        q = X[idx("quaternion_wb", 4)]
        om = X[idx("omega_wb_b", 3)]
        sp = Mm[MEM["pw_sp"]]
        finite = np.all(np.isfinite(X), axis=0) & np.all(np.isfinite(Mm), axis=0) & np.all(np.isfinite(A), axis=0)
        with np.errstate(all="ignore"):
            e = pw - sp
            en = np.sqrt(np.sum(e * e, axis=0))
            spd = sp - np.array(setpoint_of(ic))[:, None]
            spn = np.sqrt(np.sum(spd * spd, axis=0))
            qq = np.sum(q * q, axis=0)
            zbz = (q[0] ** 2 - q[1] ** 2 - q[2] ** 2 + q[3] ** 2) / qq        # world-z component of body z
            tilt = np.arccos(np.clip(zbz, -1.0, 1.0))
            # heading of body x projected on the world plane vs commanded yaw psi_sp
            yaw = np.arctan2(2 * (q[1] * q[2] + q[0] * q[3]), q[0] ** 2 + q[1] ** 2 - q[2] ** 2 - q[3] ** 2) - Mm[MEM["psi_sp"]][0]
            yaw = np.abs(np.arctan2(np.sin(yaw), np.cos(yaw)))
            rate = np.sqrt(np.sum(om * om, axis=0))
        dt_ms = self.C["dt"] * 1000.0
        if abs(dt_ms - round(dt_ms)) > 1e-9:
            raise MachineryError("control period is not an integer number of milliseconds")

        def I(a, scale):
            a = np.asarray(a, float) * scale
            a = np.where(np.isfinite(a), a, INT_CLIP)
            return np.clip(np.rint(a), -INT_CLIP, INT_CLIP).astype(np.int64)
        cols = {
            "e": I(en, 1e3), "ex": I(e[0], 1e3), "ey": I(e[1], 1e3), "ez": I(e[2], 1e3), "sp": I(spn, 1e3),
            "tilt": I(tilt, 1e3), "yaw": I(yaw, 1e3), "rate": I(rate, 1e3),
            "m": I(Mm[MEM["u"]], 1e3), "ri": I(Mm[MEM["i0"]], 1e6), "zi": I(Mm[MEM["z_i"]][0], 1e6),
            "alt": I(np.where(np.isfinite(pw[2]), pw[2], 0.0), 1e3),
        }
        lim = int(np.rint(self.lim * 1e3))
        imax = [int(v) for v in I(self.C["i_max"], 1e6)]
        zmax = int(I(self.zmax[ic["mode"]], 1e6))
        lines = []
        for k in range(n):
            ln = {"tid": tid, "k": k, "t": int(round(k * dt_ms)), "mode": ic["mode"],
                  "e": int(cols["e"][k]), "ex": int(cols["ex"][k]), "ey": int(cols["ey"][k]), "ez": int(cols["ez"][k]),
                  "sp": int(cols["sp"][k]), "tilt": int(cols["tilt"][k]), "yaw": int(cols["yaw"][k]),
                  "rate": int(cols["rate"][k]), "m": [int(v) for v in cols["m"][:, k]], "lim": lim,
                  "ri": [int(v) for v in cols["ri"][:, k]], "imax": imax, "zi": int(cols["zi"][k]), "zmax": zmax,
                  "alt": int(cols["alt"][k]), "nan": 0 if finite[k] else 1}
            if k == 0:
                ln["ic"] = {"mode": ic["mode"], "q": [int(c) for c in ic["q"]], "yaw": [int(c) for c in ic["yaw"]],
                            "q0": [int(c) for c in ic["q0"]], "spi": int(ic.get("spi", 0)), "off": [int(c) for c in ic["off"]],
                            "vel": [int(c) for c in ic["vel"]], "rate": [int(c) for c in ic["rate"]]}
                ln["n"] = n
            lines.append(ln)
        tsec = np.arange(n) * self.C["dt"]

        def mx(a, t_from):
            a = np.asarray(a, float)
            a = a[tsec >= t_from - 1e-9] if a.size == n else a
            return float(np.max(a)) if a.size and np.all(np.isfinite(a)) else float("inf")
        u_all = Mm[MEM["u"]]
        summ = {"tid": tid, "ic": ic,
                "final_err_m": mx(en[-1:], 0.0), "final_tilt_rad": mx(tilt[-1:], 0.0), "final_rate_rad_s": mx(rate[-1:], 0.0),
                "err_from_25s_m": mx(en, 25.0), "tilt_from_10s_rad": mx(tilt, 10.0), "rate_from_10s_rad_s": mx(rate, 10.0),
                "yaw_from_10s_rad": mx(yaw, 10.0), "sp_shift_m": mx(spn[-1:], 0.0),
                "max_cmd_over_lim": float(np.max(u_all) / self.lim) if np.all(np.isfinite(u_all)) else float("inf"),
                "min_z_m": float(np.min(pw[2])) if np.all(np.isfinite(pw[2])) else float("-inf"),
                "nan": int(not np.all(finite))}
        return lines, summ

    def run(self, ic, tid):
        X, Mm, A = self.simulate(ic)
        return self.observe(ic, tid, X, Mm, A)


# ------------------------------------------------------------------------------------------
# multiprocessing driver
# ------------------------------------------------------------------------------------------
_LOOP = None


def _init_worker():
    global _LOOP
    _LOOP = Loop()


def get_loop():
    global _LOOP
    if _LOOP is None:
        _LOOP = Loop()
    return _LOOP


def _job(args):
    """one shard: run the launch configurations and write the NDJSON file; returns summaries"""
    path, jobs = args
    loop = get_loop()
    summ = []
    with open(path, "w") as f:
        for tid, ic in jobs:
            lines, s = loop.run(ic, tid)
            for ln in lines:
                f.write(json.dumps(ln, separators=(",", ":")) + "\n")
            s["lines"] = len(lines)
            summ.append(s)
    return path, summ


def run_shards(shards, workers):
    """shards: list of (path, [(tid, ic), ...]).  Runs them in `workers` processes."""
    import multiprocessing as mp
    if workers <= 1 or len(shards) <= 1:
        return [_job(s) for s in shards]
    ctx = mp.get_context("spawn")          # casadi objects are built per process
    with ctx.Pool(min(workers, len(shards)), initializer=_init_worker) as pool:
        return pool.map(_job, shards, chunksize=1)
