"""Batched numeric evaluation of CasADi functions (engine A replay speed)."""
import numpy as np
import casadi as ca

_cache = {}


def batch_call(f: ca.Function, cols, chunk: int = 1024, threads: int = 1):
    """cols: one array per input, shape (numel_in_i, N) (or (N,) for scalar inputs).
    All inputs of f must be column vectors/scalars. Returns list of arrays (numel_out_j, N)."""
    cols = [np.atleast_2d(np.asarray(c, float)) for c in cols]
    N = max(c.shape[1] for c in cols)
    cols = [np.repeat(c, N, axis=1) if c.shape[1] == 1 and N > 1 else c for c in cols]
    for i, c in enumerate(cols):
        assert f.size2_in(i) == 1 and c.shape[0] == f.numel_in(i), (f.name(), i, c.shape, f.size_in(i))
    key = (id(f), chunk, threads)
    if key not in _cache:
        _cache[key] = (f, f.map(chunk, "thread", threads) if threads > 1 else f.map(chunk))
    fm = _cache[key][1]
    outs = [np.empty((f.numel_out(j), N)) for j in range(f.n_out())]
    for s in range(0, N, chunk):
        blk = []
        n = min(chunk, N - s)
        for c in cols:
            b = c[:, s:s + n]
            if n < chunk:
                b = np.hstack([b, np.repeat(b[:, -1:], chunk - n, axis=1)])
            blk.append(ca.DM(b))
        r = fm(*blk)
        if not isinstance(r, (list, tuple)):
            r = [r]
        for j, rj in enumerate(r):
            a = np.array(rj)
            if f.size2_out(j) != 1:      # matrix output: (r, c*chunk) -> (r*c, chunk) column-major
                rr, cc = f.size_out(j)
                a = a.reshape(rr, chunk, cc).transpose(2, 0, 1).reshape(rr * cc, chunk)
            outs[j][:, s:s + n] = a[:, :n]
    return outs
