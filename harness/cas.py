"""Batched numeric evaluation of CasADi functions (engine A replay speed)."""
import numpy as np
import casadi as ca

_cache = {}


APPENDED = set()        # exported functions that return more results than the pinned interface (reported as SPEC-DRIFT by Run.finish)


def batch_call(f: ca.Function, cols, chunk: int = 1024, threads: int = 1):
    """cols: one array per input, shape (numel_in_i, N) (or (N,) for scalar inputs).
    All inputs of f must be column vectors/scalars. Returns list of arrays (numel_out_j, N)."""
    cols = [np.atleast_2d(np.asarray(c, float)) for c in cols]
    N = max(c.shape[1] for c in cols)
    cols = [np.repeat(c, N, axis=1) if c.shape[1] == 1 and N > 1 else c for c in cols]
    for i, c in enumerate(cols):
        assert f.size2_in(i) == 1 and c.shape[0] == f.numel_in(i), (f.name(), i, c.shape, f.size_in(i))
    key = (id(f), chunk, threads)
    if key not in _cache:
        _cache[key] = (f, f.map(chunk, "thread", threads) if threads > 1 else f.map(chunk))
    fm = _cache[key][1]
    outs = [np.empty((f.numel_out(j), N)) for j in range(f.n_out())]
    for s in range(0, N, chunk):
        blk = []
        n = min(chunk, N - s)
        for c in cols:
            b = c[:, s:s + n]
            if n < chunk:
                b = np.hstack([b, np.repeat(b[:, -1:], chunk - n, axis=1)])
            blk.append(ca.DM(b))
        r = fm(*blk)
        if not isinstance(r, (list, tuple)):
            r = [r]
        for j, rj in enumerate(r):
            a = np.array(rj)
            if f.size2_out(j) != 1:      # matrix output: (r, c*chunk) -> (r*c, chunk) column-major
                rr, cc = f.size_out(j)
                a = a.reshape(rr, chunk, cc).transpose(2, 0, 1).reshape(rr * cc, chunk)
            outs[j][:, s:s + n] = a[:, :n]
    probe_columns(f, cols, outs)
    if IFACE and _named_budget.get(id(f), 0) < 3:
        for k in sorted({0, N // 2, N - 1}):
            named_probe(f, [c[:, k] for c in cols], [o[:, k] for o in outs])
    # results APPENDED to an exported function (existing outputs keep position and name) are none of the caller's business:
    # the callers unpack the pinned interface (harness/iface_names.json)
    if IFACE:
        nm = f.name()
        for k_, v_ in IFACE.items():
            if (k_ == nm or k_.endswith(":" + nm)) and len(v_["in"]) == f.n_in() and len(v_["out"]) < f.n_out() \
                    and [f.name_out(j) for j in range(len(v_["out"]))] == list(v_["out"]):
                APPENDED.add(nm)
                return outs[:len(v_["out"])]
    return outs


# --------------------------------------------------------------------------------------
# numeric-argument ("eager") path
# --------------------------------------------------------------------------------------
# Engine A evaluates ca.Functions built ONCE from symbolic arguments.  A user also calls the
# library with numbers (`G.elem(ca.DM([...]))`): structural shortcuts in the code
# (`param.is_zero()`, sparsity tests, `is_constant`) fire only on that path.  For a few columns per
# function -- those with the most exact zeros first -- the builder is re-run with ca.SX.sym replaced
# by the numeric values and ca.Function replaced by direct evaluation, and the outputs are compared
# with the symbolic function's.  Only a clean disagreement is recorded: symbolic outputs finite,
# argument binding verified; anything unusual (symbols created inside the library, non-constant
# outputs, shapes not understood) skips the probe.
REG = {}            # id(function) -> (label, builder)
EAGER = []          # recorded disagreements (drained by Run.finish)
STATS = {"probes": 0, "skipped": 0}
_budget = {}
PROBES_PER_FN = 8


def register(f, label, builder):
    if isinstance(f, tuple) and f and isinstance(f[0], ca.Function):      # builders returning (Function, clause names)
        f = f[0]
    if isinstance(f, ca.Function):
        REG[id(f)] = (label, builder, f)


class _Captured(Exception):
    def __init__(self, outs):
        self.outs = outs


def eager_eval(builder, args):
    vals = [np.asarray(a, float) for a in args]
    made = []
    st = {"i": 0}
    orig_sym, orig_F = ca.SX.sym, ca.Function

    def fake_sym(name, *shape):
        if st["i"] < len(vals) and all(isinstance(x, int) for x in shape) and len(shape) <= 2:
            n = shape[0] if shape else 1
            m = shape[1] if len(shape) > 1 else 1
            v = vals[st["i"]]
            if v.size != n * m:
                st["i"] = len(vals) + 1      # binding not understood: stop substituting
                return orig_sym(name, *shape)
            st["i"] += 1
            c = ca.SX(ca.DM(v.reshape(n, m, order="F")))
            made.append(c)
            return c
        return orig_sym(name, *shape)

    def fake_F(name, ins=None, outs=None, *a, **k):
        if ins is not None and outs is not None and len(ins) == len(vals) and len(made) == len(vals) \
                and all(any(i is c for c in made) for i in ins):
            raise _Captured((list(ins), list(outs)))
        return orig_F(name, ins, outs, *a, **k) if ins is not None else orig_F(name)
    try:
        ca.SX.sym = staticmethod(fake_sym)
        ca.Function = fake_F
        try:
            builder()
        except _Captured as c:
            ins, outs = c.outs
        else:
            return None
    except Exception:       # noqa: the numeric path raising is reported by the caller through None + flag
        return "raised"
    finally:
        ca.SX.sym = orig_sym
        ca.Function = orig_F
    try:
        for i, v in zip(ins, vals):
            if not np.array_equal(np.array(ca.DM(i)).flatten(order="F"), v.flatten(order="F")):
                return None
        return [np.array(ca.evalf(ca.densify(o))).flatten(order="F") for o in outs]
    except Exception:       # noqa
        return None


def eager_probe(f, args, outs, tol=1e-9):
    """args: list of 1-D arrays (one evaluation); outs: list of arrays from the symbolic function."""
    ent = REG.get(id(f))
    if ent is None:
        return
    label, builder, _ = ent
    if _budget.get(id(f), 0) >= PROBES_PER_FN:
        return
    _budget[id(f)] = _budget.get(id(f), 0) + 1
    sym = [np.asarray(o, float).flatten(order="F") for o in outs]
    if not all(np.all(np.isfinite(o)) for o in sym):
        STATS["skipped"] += 1
        return
    got = eager_eval(builder, args)
    if got is None or got == "raised" or len(got) != len(sym):
        STATS["skipped"] += 1
        return
    STATS["probes"] += 1
    for j, (g, w) in enumerate(zip(got, sym)):
        if g.shape != w.shape:
            STATS["skipped"] += 1
            return
        with np.errstate(invalid="ignore"):
            bad = ~(np.abs(g - w) <= tol * max(1.0, float(np.max(np.abs(w))) if w.size else 1.0))
        if np.any(bad):
            EAGER.append({"label": label, "out": j, "args": [np.asarray(a, float).tolist() for a in args],
                          "numeric_path": g.tolist(), "symbolic_path": w.tolist()})
            return
    # ... and once more, in the same process, at arguments that differ from the previous ones only in the 8th significant
    # digit (zeros stay zeros): a result memoised under a key that is too coarse (printed parameters, rounded magnitudes)
    # is returned stale here, while the symbolic function evaluated at the new numbers gives the new value
    pert = [np.asarray(a, float) * (1.0 + 2.5e-8) for a in args]
    try:
        r = ent[2](*[ca.DM(p_.reshape(ent[2].size_in(i), order="F")) for i, p_ in enumerate(pert)])
        r = r if isinstance(r, (list, tuple)) else [r]
        sym2 = [np.array(x).flatten(order="F") for x in r]
    except Exception:       # noqa
        return
    if not all(np.all(np.isfinite(o)) for o in sym2):
        return
    got2 = eager_eval(builder, pert)
    if got2 is None or got2 == "raised" or len(got2) != len(sym2):
        return
    STATS["probes_perturbed"] = STATS.get("probes_perturbed", 0) + 1
    for j, (g, w) in enumerate(zip(got2, sym2)):
        if g.shape != w.shape:
            return
        with np.errstate(invalid="ignore"):
            bad = ~(np.abs(g - w) <= tol * max(1.0, float(np.max(np.abs(w))) if w.size else 1.0))
        if np.any(bad):
            EAGER.append({"label": label, "out": j, "args": [p_.tolist() for p_ in pert], "previous_args": [np.asarray(a, float).tolist() for a in args],
                          "numeric_path": g.tolist(), "symbolic_path": w.tolist(),
                          "note": "second evaluation in the same process at arguments differing in the 8th digit"})
            return


def probe_columns(f, cols, outs):
    """after a batch evaluation: probe the columns with the most exact zeros (then the first ones)"""
    if id(f) not in REG or _budget.get(id(f), 0) >= PROBES_PER_FN:
        return
    N = cols[0].shape[1]
    zeros = np.zeros(N)
    for c in cols:
        zeros += np.sum(c == 0.0, axis=0)
    order = list(np.argsort(-zeros, kind="stable")[:PROBES_PER_FN - 2]) + [0, N - 1]
    seen = set()
    for k in order:
        if k in seen:
            continue
        seen.add(k)
        eager_probe(f, [c[:, k] for c in cols], [o[:, k] for o in outs])


_budget_z = {}
_budget_t = {}


def direct_probe(f, args, outs):
    """for checks that evaluate one state at a time: a few ordinary calls and more calls whose arguments
    hold exact zeros (zero rotation, pure translation, identity...) are re-evaluated on the numeric path"""
    if id(f) not in REG:
        return
    a = [np.asarray(x, float).flatten(order="F") for x in args]
    nz = sum(int(np.sum(x == 0.0)) for x in a)
    tiny = any(np.any((np.abs(x) > 0) & (np.abs(x) <= 1e-5)) for x in a)
    if tiny and _budget_t.get(id(f), 0) < 8:
        # components between 0 and 1e-5: an ABSOLUTE pruning tolerance (sparsify(M, 1e-6)) only bites numeric constants
        _budget_t[id(f)] = _budget_t.get(id(f), 0) + 1
        _budget[id(f)] = min(_budget.get(id(f), 0), PROBES_PER_FN - 1)
    elif nz >= 3:
        if _budget_z.get(id(f), 0) >= 8:
            return
        _budget_z[id(f)] = _budget_z.get(id(f), 0) + 1
        _budget[id(f)] = min(_budget.get(id(f), 0), PROBES_PER_FN - 1)
    elif _budget.get(id(f), 0) >= 4:
        return
    eager_probe(f, a, outs)


# --------------------------------------------------------------------------------------
# call by NAME
# --------------------------------------------------------------------------------------
# The exported functions document their arguments by name (x0, a_b, omega_b, ...).  harness/iface_names.json pins the
# names of the verified tree (tools/gen_iface.py).  A few evaluations per function are repeated BY NAME and must
# equal the call by position: a name list that no longer matches the symbols routes a keyword caller's specific
# force into the angular-rate slot while every positional call stays exact.
import json as _json, os as _os
try:
    IFACE = _json.load(open(_os.path.join(_os.path.dirname(__file__), "iface_names.json")))
except Exception:       # noqa
    IFACE = {}
NAMED = []          # disagreements (drained by Run.finish)
NAMED_DRIFT = []    # renamed arguments (information)
_named_budget = {}


def _iface_of(f):
    nm = f.name()
    cands = [v for k, v in IFACE.items() if k == nm or k.endswith(":" + nm)]
    cands = [v for v in cands if len(v["in"]) == f.n_in() and len(v["out"]) == f.n_out()]
    have = [f.name_in(i) for i in range(f.n_in())]
    exact = [v for v in cands if set(v["in"]) == set(have)]
    if len(exact) == 1:
        return exact[0]
    if cands and not exact and id(f) not in _named_budget:
        _named_budget[id(f)] = 99
        NAMED_DRIFT.append((nm, have, cands[0]["in"]))
    return None


def named_probe(f, args, outs, tol=1e-9):
    """args: list of arrays (one evaluation, positional order); outs: positional results"""
    if _named_budget.get(id(f), 0) >= 3:
        return
    ent = _iface_of(f)
    if ent is None:
        return
    _named_budget[id(f)] = _named_budget.get(id(f), 0) + 1
    try:
        kw = {ent["in"][i]: ca.DM(np.asarray(a, float).reshape(f.size_in(i), order="F")) for i, a in enumerate(args)}
        r = f.call(kw)
        got = [np.array(r[n]).flatten(order="F") for n in ent["out"]]
    except Exception:       # noqa: output names changed etc. -- not decided here
        return
    STATS["named_calls"] = STATS.get("named_calls", 0) + 1
    for j, (g, w) in enumerate(zip(got, outs)):
        w = np.asarray(w, float).flatten(order="F")
        if g.shape != w.shape:
            return
        same_nan = np.array_equal(np.isnan(g), np.isnan(w))
        with np.errstate(invalid="ignore"):
            fin = np.isfinite(w)
            bad = (not same_nan) or np.any(np.abs(g[fin] - w[fin]) > tol * max(1.0, float(np.max(np.abs(w[fin]))) if np.any(fin) else 1.0))
        if bad:
            NAMED.append({"function": f.name(), "names": ent["in"], "names_now": [f.name_in(i) for i in range(f.n_in())],
                          "args": [np.asarray(a, float).flatten().tolist() for a in args], "by_name": g.tolist(), "by_position": w.tolist()})
            return


def named_selfcheck(f, seed=0):
    """one evaluation of an exported function at generic inputs, by position and by (pinned) name"""
    if f.n_in() == 0:
        return
    rng = np.random.default_rng(1234 + seed)
    args = [rng.uniform(0.2, 1.2, f.numel_in(i)) for i in range(f.n_in())]
    try:
        r = f(*[ca.DM(a.reshape(f.size_in(i), order="F")) for i, a in enumerate(args)])
    except Exception:       # noqa
        return
    if isinstance(r, dict):
        return
    r = r if isinstance(r, (list, tuple)) else [r]
    named_probe(f, args, [np.array(x).flatten(order="F") for x in r])
