"""Unbounded proofs of scalar polynomial identities with Apalache (spec/RotUnbounded.tla)."""
import os, shutil, subprocess, time
from harness.core import SPEC, MachineryError


def prove(run, invs=("NormMult", "Hom11", "ConjT"), refute=("Bogus",), timeout=300):
    exe = shutil.which("apalache-mc")
    out = {}
    if not exe:
        return {"available": False}
    t0 = time.time()
    for inv in list(invs) + list(refute):
        od = os.path.join(run.workdir, "apa_" + inv)
        p = subprocess.run([exe, "check", "--length=0", f"--inv={inv}", f"--out-dir={od}", os.path.join(SPEC, "RotUnbounded.tla")],
                           capture_output=True, text=True, timeout=timeout, cwd=run.workdir)
        txt = p.stdout + p.stderr
        ok = "The outcome is: NoError" in txt
        bad = "The outcome is: Error" in txt
        out[inv] = "proved" if ok else ("refuted" if bad else "inconclusive")
        shutil.rmtree(od, ignore_errors=True)
    for inv in invs:
        if out[inv] != "proved":
            raise MachineryError(f"Apalache did not prove {inv}: {out[inv]}")
    for inv in refute:
        if out[inv] != "refuted":
            raise MachineryError(f"Apalache negative control {inv} was not refuted: {out[inv]}")
    out["available"] = True
    out["wall_s"] = round(time.time() - t0, 1)
    return out
