"""Shared machinery of the /verif checks.

* run_tlc / parse_dump / parse_sim : drive TLC and read back states/behaviours
* Run                              : per-check verdict collector (violations,
                                     known findings, evidence, exit code)
Verdict policy (DESIGN.md section 5): exit 0 = property held on everything explored,
exit 1 + "VIOLATION property=<id> replay=<path>" = violation not listed in
known_findings.jsonl, exit 2 = machinery failure (TLC error, vacuous coverage...).
"""
from __future__ import annotations

import fnmatch
import hashlib
import json
import os
import re
import shutil
import subprocess
import sys
import tempfile
import time

VERIF = os.path.dirname(os.path.dirname(os.path.abspath(__file__)))
SPEC = os.path.join(VERIF, "spec")
EVID = os.path.join(VERIF, "evidence")
REPLAY = os.path.join(VERIF, "replay")
KNOWN = os.path.join(VERIF, "known_findings.jsonl")
JAR = "/opt/veriftools/tla/tla2tools.jar:/opt/veriftools/tla/CommunityModules-deps.jar"
NCPU = int(os.environ.get("VERIF_WORKERS", "16"))


class MachineryError(Exception):
    pass


# --------------------------------------------------------------------------------------
# TLA+ value syntax -> python
# --------------------------------------------------------------------------------------
_re_key = re.compile(r"([A-Za-z_][A-Za-z0-9_]*) \|->")


def tla_to_py(s: str):
    """Convert a TLA+ value printed by TLC (ints, strings, booleans, tuples, records,
    sets of hashables) to python (ints, str, bool, tuples, dicts, sets)."""
    s = s.replace("<<>>", "()")
    s = s.replace("<<", "(").replace(">>", ",)")
    s = s.replace("[", "{").replace("]", "}")
    s = _re_key.sub(r'"\1":', s)
    s = s.replace("TRUE", "True").replace("FALSE", "False")
    return eval(s, {"__builtins__": {}}, {})


def parse_dump(path: str):
    """Yield one dict {var: value} per state of a `tlc -dump` file."""
    if not os.path.exists(path) and os.path.exists(path + ".dump"):
        path = path + ".dump"
    buf = []
    with open(path) as f:
        for line in f:
            if line.startswith("State "):
                if buf:
                    yield _state(buf)
                buf = []
            elif line.strip():
                buf.append(line.rstrip("\n"))
    if buf:
        yield _state(buf)


_re_var = re.compile(r"^(?:/\\ )?([A-Za-z_][A-Za-z0-9_]*) = (.*)$", re.S)


def _state(lines):
    # variables start at column 0 with "/\ name = " (or "name = " for a single variable)
    chunks = []
    for ln in lines:
        if ln.startswith("/\\ ") or (not ln.startswith(" ") and _re_var.match(ln) and not chunks):
            chunks.append(ln)
        else:
            chunks[-1] += " " + ln.strip()
    out = {}
    for c in chunks:
        m = _re_var.match(c)
        if not m:
            raise MachineryError("cannot parse state chunk: " + c[:200])
        out[m.group(1)] = tla_to_py(m.group(2))
    return out


def parse_sim_file(path: str):
    """Parse one behaviour file written by `tlc -simulate file=...`: returns a list of
    (action_name, state_dict)."""
    txt = open(path).read()
    steps = []
    # blocks: \* <Action line ...>\nSTATE_n == \n/\ v = ...\n\n
    for m in re.finditer(r"\\\* (.*?)\nSTATE_\d+ ==\s*\n(.*?)(?=\n\n|\Z)", txt, re.S):
        head, body = m.group(1), m.group(2)
        am = re.match(r"<(\w+)", head)
        act = am.group(1) if am else head.strip()
        steps.append((act, _state([l for l in body.split("\n") if l.strip()])))
    return steps


# --------------------------------------------------------------------------------------
# running TLC
# --------------------------------------------------------------------------------------
_re_states = re.compile(r"(\d+) states generated, (\d+) distinct states found")
_re_depth = re.compile(r"The depth of the complete state graph search is (\d+)")
_re_cov = re.compile(r"^<(\w+) line (\d+), col (\d+) to line (\d+), col (\d+) of module (\w+)>: (\d+):(\d+)", re.M)


def run_tlc(spec: str, cfg: str, *, workdir: str, dump: bool = False, simulate: str | None = None,
            depth: int | None = None, seed: int | None = None, workers: int | None = None,
            env: dict | None = None, coverage: bool = False, timeout: int = 3600,
            extra: list | None = None, allow_violation: bool = False, jvm: list | None = None):
    """Run TLC on SPEC/<spec>.tla with SPEC/<cfg>. Returns dict(states, distinct, depth,
    out, dump, coverage, violated)."""
    meta = os.path.join(workdir, "meta_" + cfg.replace(".cfg", "").replace("/", "_"))
    os.makedirs(meta, exist_ok=True)
    cmd = ["java", "-XX:+UseSerialGC", "-Xmx6g", "-Xss64m", f"-Djava.io.tmpdir={workdir}"] + (jvm or []) + ["-cp", JAR, "tlc2.TLC",
           "-metadir", meta, "-noGenerateSpecTE", "-config", os.path.join(SPEC, cfg)]
    w = workers or NCPU
    cmd += ["-workers", str(w)]
    dump_path = None
    if dump:
        dump_path = os.path.join(workdir, "dump_" + cfg.replace(".cfg", ""))
        cmd += ["-dump", dump_path]
    if simulate:
        cmd += ["-simulate", simulate]
    if depth is not None:
        cmd += ["-depth", str(depth)]
    if seed is not None:
        cmd += ["-seed", str(seed)]
    if coverage:
        cmd += ["-coverage", "1"]
    cmd += ["-deadlock"] if False else []
    cmd += (extra or [])
    cmd += [os.path.join(SPEC, spec)]
    e = dict(os.environ)
    e.update(env or {})
    t0 = time.time()
    try:
        p = subprocess.run(cmd, capture_output=True, text=True, timeout=timeout, env=e, cwd=SPEC)
    except subprocess.TimeoutExpired as ex:
        raise MachineryError(f"TLC timeout on {spec}/{cfg}") from ex
    out = p.stdout + p.stderr
    res = {"out": out, "wall_s": time.time() - t0, "dump": (dump_path + ".dump") if dump_path else None,
           "rc": p.returncode, "cmd": " ".join(cmd)}
    m = None
    for m in _re_states.finditer(out):
        pass
    if m:
        res["states"], res["distinct"] = int(m.group(1)), int(m.group(2))
    md = _re_depth.search(out)
    res["depth"] = int(md.group(1)) if md else 0
    res["violated"] = None
    mv = re.search(r"Error: Invariant (\w+) is violated|Error: Action property (\w+) is violated|"
                   r"Error: Temporal properties were violated|is violated", out)
    if mv:
        res["violated"] = mv.group(1) or mv.group(2) or "property"
    if coverage:
        res["coverage"] = {}
        for c in _re_cov.finditer(out):
            res["coverage"][c.group(1)] = res["coverage"].get(c.group(1), 0) + int(c.group(7))
    ok = ("Model checking completed. No error has been found." in out) or \
         (simulate and p.returncode in (0,) ) or ("Finished in" in out and p.returncode == 0)
    if res["violated"] and allow_violation:
        return res
    if not ok or res["violated"]:
        tail = "\n".join(out.splitlines()[-60:])
        raise MachineryError(f"TLC failed on {spec} / {cfg} (rc={p.returncode}, violated={res['violated']}):\n{tail}")
    return res


def sany(spec: str):
    p = subprocess.run(["java", "-cp", JAR, "tla2sany.SANY", os.path.join(SPEC, spec)],
                       capture_output=True, text=True, cwd=SPEC)
    return p.returncode == 0 and "Semantic errors" not in p.stdout and "Fatal" not in p.stdout, p.stdout


# --------------------------------------------------------------------------------------
# verdict collector
# --------------------------------------------------------------------------------------
def load_known():
    out = []
    if os.path.exists(KNOWN):
        for ln in open(KNOWN):
            ln = ln.strip()
            if ln and not ln.startswith("#"):
                out.append(json.loads(ln))
    return out


class Run:
    live = []

    def __init__(self, pid: str, tier: str, level: str = "model_checking"):
        Run.live.append(self)
        self.pid = pid
        self.tier = tier
        self.level = level
        self.seed = int(os.environ.get("VERIF_SEED", "0"))
        self.t0 = time.time()
        self.viol = {}          # key -> dict(what, data, count)
        self.drift = {}         # informational
        self.cov = {"samples": []}
        self.assumptions = []
        self.workdir = tempfile.mkdtemp(prefix=f"verif_{pid}_")
        self.tlc = []           # list of per-run dicts
        self.counts = {}
        self.maxerr = 0.0

    # -- bookkeeping
    def count(self, name, n=1):
        self.counts[name] = self.counts.get(name, 0) + n

    def sample(self, obj, limit=5):
        if len(self.cov["samples"]) < limit:
            self.cov["samples"].append(obj)

    def err(self, e):
        if e == e and e > self.maxerr:
            self.maxerr = float(e)

    def add_tlc(self, name, res):
        self.tlc.append({"name": name, "states": res.get("states", 0), "distinct": res.get("distinct", 0),
                         "depth": res.get("depth", 0), "wall_s": round(res["wall_s"], 2),
                         **({"coverage": res["coverage"]} if "coverage" in res else {})})

    def violation(self, key: str, what: str, data=None):
        v = self.viol.setdefault(key, {"what": what, "data": data, "count": 0})
        v["count"] += 1

    def spec_drift(self, key: str, what: str):
        d = self.drift.setdefault(key, {"what": what, "count": 0})
        d["count"] += 1

    # -- finish
    def finish(self, extra_cov: dict | None = None):
        try:        # numeric-argument path probes (harness/cas.py): symbolic path right, numeric path different
            from harness import cas as _cas
            for m in _cas.EAGER:
                lab = m["label"] if isinstance(m["label"], str) else "/".join(str(x) for x in m["label"])
                self.violation(f"{lab}/numeric_argument_path", "the operation returns a different value when its argument is built from numbers "
                               "(elem(ca.DM(...))) than when it is symbolic and evaluated at the same numbers", m)
            _cas.EAGER.clear()
            for m in _cas.NAMED:
                self.violation(f"{m['function']}/keyword_call", "calling the function by its documented argument names gives a different result than "
                               "calling it by position (the name list no longer matches the argument order)", m)
            _cas.NAMED.clear()
            for nm, have, pinned in _cas.NAMED_DRIFT:
                self.spec_drift(f"{nm}/argument_names_changed", f"argument names {have} differ from the pinned interface {pinned}")
            _cas.NAMED_DRIFT.clear()
            for nm in sorted(getattr(_cas, "APPENDED", ())):
                self.spec_drift(f"{nm}/results_appended", "the function returns more results than the pinned interface; the pinned ones keep position and name")
            if _cas.STATS.get("named_calls"):
                self.counts["keyword_calls"] = _cas.STATS["named_calls"]
            if _cas.STATS["probes"] or _cas.STATS["skipped"]:
                self.counts["numeric_path_probes"] = _cas.STATS["probes"]
                self.counts["numeric_path_probes_skipped"] = _cas.STATS["skipped"]
                self.counts["numeric_path_probes_perturbed"] = _cas.STATS.get("probes_perturbed", 0)
        except ImportError:
            pass
        known = [k for k in load_known() if k["property"] == self.pid]
        new = []
        for key, v in sorted(self.viol.items()):
            hit = None
            for k in known:
                if k.get("status") == "known" and fnmatch.fnmatchcase(key, k["key"]):
                    hit = k
                    break
            if hit:
                print(f"KNOWN-FINDING: property={self.pid} {key} {hit['what']} (x{v['count']})")
            else:
                new.append((key, v))
        for key, d in sorted(self.drift.items()):
            print(f"SPEC-DRIFT: property={self.pid} {key} {d['what']} (x{d['count']})")
        os.makedirs(REPLAY, exist_ok=True)
        if os.environ.get("VERIF_REPO", "/repo") != "/repo":
            print(f"NOTE: checking scratch tree {os.environ['VERIF_REPO']} (not /repo)")
        for key, v in new:
            h = hashlib.sha1(key.encode()).hexdigest()[:10]
            path = os.path.join(REPLAY, f"{self.pid}-{h}.json")
            with open(path, "w") as f:
                json.dump({"property": self.pid, "key": key, "what": v["what"], "count": v["count"],
                           "data": v["data"]}, f, indent=1, default=str)
            if self.pid.startswith("G"):   # growth specs: outside the listed properties, never a property alarm
                print(f"DEVIATION growth-spec={self.pid} replay={path}")
            else:
                print(f"VIOLATION property={self.pid} replay={path}")
            print(f"  key={key} :: {v['what']} (x{v['count']})")
        cov = dict(self.cov)
        cov["states"] = sum(t["distinct"] for t in self.tlc)
        cov["transitions"] = sum(t["states"] for t in self.tlc)
        cov.setdefault("traces_validated_against_impl", 0)
        cov["tlc_runs"] = self.tlc
        cov["counts"] = self.counts
        cov["max_abs_err"] = self.maxerr
        cov["violation_keys"] = sorted(self.viol.keys())
        cov["spec_drift_keys"] = sorted(self.drift.keys())
        if extra_cov:
            cov.update(extra_cov)
        if not cov["samples"]:
            cov["samples"] = ["(none recorded)"]
        ev = {"property_id": self.pid, "tier": self.tier, "seed": self.seed, "level": self.level,
              "coverage": cov, "assumptions": self.assumptions,
              "wall_s": round(time.time() - self.t0, 2), "violations": len(new)}
        evdir = EVID if not os.environ.get("VERIF_NO_EVIDENCE") else os.path.join(self.workdir, "evidence")
        if self.pid.startswith("G") and evdir == EVID:
            evdir = os.path.join(os.path.dirname(EVID), "evidence_growth")
        os.makedirs(evdir, exist_ok=True)
        with open(os.path.join(evdir, f"{self.pid}.json"), "w") as f:
            json.dump(ev, f, indent=1, default=str)
        shutil.rmtree(self.workdir, ignore_errors=True)
        print(f"[{self.pid}/{self.tier}] states={cov['states']} replayed={cov.get('traces_validated_against_impl')} "
              f"violations={len(new)} known={len(self.viol) - len(new)} wall={ev['wall_s']}s")
        return 1 if new else 0


def main_wrap(fn):
    """Run a check body, mapping machinery failures to exit 2."""
    try:
        rc = fn()
    except MachineryError as e:
        print("MACHINERY-FAILURE:", e, file=sys.stderr)
        for r in list(Run.live):        # scratch directories of runs that never reached finish()
            shutil.rmtree(r.workdir, ignore_errors=True)
        sys.exit(2)
    except SystemExit:
        raise
    except BaseException as e:     # noqa: a crash of the harness is a machinery failure, never a verdict (no exit 1 without a VIOLATION line)
        import traceback
        traceback.print_exc()
        # ... unless the exception was RAISED BY THE CODE UNDER TEST (innermost frame inside the repository tree) while the
        # check drove it through a scenario of the specification: that is a finding about the code, reported as such
        try:
            tb = traceback.extract_tb(e.__traceback__)
            root = os.path.realpath(os.environ.get("VERIF_REPO", "/repo")) + os.sep
            inner = os.path.realpath(tb[-1].filename) if tb else ""
            if inner.startswith(root) and Run.live and not isinstance(e, (KeyboardInterrupt, MemoryError)):
                r = Run.live[-1]
                where = f"{os.path.relpath(inner, root)}:{tb[-1].lineno}"
                r.violation(f"exception/{type(e).__name__}/{os.path.relpath(inner, root)}", "the code under test raised an exception while the check drove it through "
                            f"a scenario the specification allows ({where}): {str(e)[:300]}", {"where": where, "exception": type(e).__name__,
                                                                                          "trace": [f"{os.path.basename(f.filename)}:{f.lineno}:{f.name}" for f in tb[-8:]]})
                sys.exit(r.finish())
        except SystemExit:
            raise
        except BaseException:       # noqa
            pass
        print(f"MACHINERY-FAILURE: unexpected {type(e).__name__} in the harness: {e}", file=sys.stderr)
        for r in list(Run.live):
            shutil.rmtree(r.workdir, ignore_errors=True)
        sys.exit(2)
    sys.exit(rc)
