"""Embedding (gamma) of the abstract exact elements of spec/LieGroups.tla into cyecca
parameter vectors, and projection (alpha) back to matrices.  Written from the textbook
definitions, deliberately NOT importing conversion formulas from cyecca."""
import math
import numpy as np
import casadi as ca


def qmat(q):
    w, x, y, z = [float(c) for c in q]
    return np.array([[w*w + x*x - y*y - z*z, 2*(x*y - w*z), 2*(x*z + w*y)],
                     [2*(x*y + w*z), w*w - x*x + y*y - z*z, 2*(y*z - w*x)],
                     [2*(x*z - w*y), 2*(y*z + w*x), w*w - x*x - y*y + z*z]])


def rot(q):
    n = float(sum(int(c) * int(c) for c in q))
    return qmat(q) / n


def so3_param(rep, q):
    n = float(sum(int(c) * int(c) for c in q))
    s = math.sqrt(n)
    if rep == "quat":
        return np.array(q, float) / s
    if rep == "mrp":
        return np.array(q[1:], float) / (s + q[0])
    R = qmat(q) / n
    if rep == "dcm":
        return R.flatten(order="F")
    if rep == "euler":        # B321: R = Rz(psi) Ry(theta) Rx(phi)
        if abs(R[2, 0]) >= 1.0 - 1e-12:     # exact gimbal pole: the representative with phi = 0
            return np.array([math.atan2(-R[0, 1], R[1, 1]), math.copysign(math.pi / 2, -R[2, 0]), 0.0])
        return np.array([math.atan2(R[1, 0], R[0, 0]), math.asin(max(-1.0, min(1.0, -R[2, 0]))),
                         math.atan2(R[2, 1], R[2, 2])])
    raise ValueError(rep)


def group_of(X):
    import cyecca.lie as L
    g = X["g"]
    if g == "SO3":
        return {"quat": L.SO3Quat, "mrp": L.SO3Mrp, "dcm": L.SO3Dcm, "euler": L.SO3EulerB321}[X["rep"]]
    if g == "SE3":
        return {"quat": L.SE3Quat, "mrp": L.SE3Mrp}[X["rep"]]
    if g == "SE23":
        return {"quat": L.SE23Quat, "mrp": L.SE23Mrp}[X["rep"]]
    if g == "SO2":
        return L.SO2
    if g == "SE2":
        return L.SE2
    if g == "Rn":
        return {2: L.R2, 3: L.R3}[len(X["x"])]
    if g == "Prod":
        G = group_of(X["fs"][0])
        for f in X["fs"][1:]:
            G = G * group_of(f)
        return G
    raise ValueError(g)


def group_key(X):
    g = X["g"]
    if g in ("SO3", "SE3", "SE23"):
        return f"{g}{X['rep']}"
    if g == "Rn":
        return f"R{len(X['x'])}"
    if g == "Prod":
        return "(" + "*".join(group_key(f) for f in X["fs"]) + ")"
    return g


def embed(X):
    g = X["g"]
    if g == "SO3":
        return so3_param(X["rep"], X["q"])
    if g == "SE3":
        return np.concatenate([np.array(X["p"], float) / X["pd"], so3_param(X["rep"], X["q"])])
    if g == "SE23":
        return np.concatenate([np.array(X["p"], float) / X["pd"], np.array(X["v"], float) / X["pd"],
                               so3_param(X["rep"], X["q"])])
    if g == "SO2":
        return np.array([math.atan2(X["cs"][1], X["cs"][0])])
    if g == "SE2":
        return np.array([X["p"][0] / X["pd"], X["p"][1] / X["pd"], math.atan2(X["cs"][1], X["cs"][0])])
    if g == "Rn":
        return np.array(X["x"], float) / X["pd"]
    if g == "Prod":
        return np.concatenate([embed(f) for f in X["fs"]])
    raise ValueError(g)


def rm_to_np(rm):
    return np.array(rm["num"], float) / float(rm["den"])


class FnCache:
    """ca.Function builders per (group key, operation), built once from the working tree."""
    def __init__(self):
        self.c = {}

    def get(self, key, builder):
        if key not in self.c:
            try:
                self.c[key] = builder()
                from harness import cas as _cas
                _cas.register(self.c[key], key, builder)
            except NotImplementedError as e:
                self.c[key] = ("notimpl", e)
            except Exception as e:  # construction itself failed (e.g. TypeError inside the library)
                self.c[key] = ("error", e)
        return self.c[key]


def sym_elem(G, name):
    p = ca.SX.sym(name, G.n_param)
    return p, G.elem(p)
