"""Embedding (gamma) of the abstract exact elements of spec/LieGroups.tla into cyecca
parameter vectors, and projection (alpha) back to matrices.  Written from the textbook
definitions, deliberately NOT importing conversion formulas from cyecca."""
import math
import numpy as np
import casadi as ca


def qmat(q):
    w, x, y, z = [float(c) for c in q]
    return np.array([[w*w + x*x - y*y - z*z, 2*(x*y - w*z), 2*(x*z + w*y)],
                     [2*(x*y + w*z), w*w - x*x + y*y - z*z, 2*(y*z - w*x)],
                     [2*(x*z - w*y), 2*(y*z + w*x), w*w - x*x - y*y + z*z]])


def rot(q):
    n = float(sum(int(c) * int(c) for c in q))
    return qmat(q) / n


def so3_param(rep, q):
    n = float(sum(int(c) * int(c) for c in q))
    s = math.sqrt(n)
    if rep == "quat":
        return np.array(q, float) / s
    if rep == "mrp":
        return np.array(q[1:], float) / (s + q[0])
    R = qmat(q) / n
    if rep == "dcm":
        return R.flatten(order="F")
    if rep == "euler":        # B321: R = Rz(psi) Ry(theta) Rx(phi)
        if abs(R[2, 0]) >= 1.0 - 1e-12:     # exact gimbal pole: the representative with phi = 0
            return np.array([math.atan2(-R[0, 1], R[1, 1]), math.copysign(math.pi / 2, -R[2, 0]), 0.0])
        return np.array([math.atan2(R[1, 0], R[0, 0]), math.asin(max(-1.0, min(1.0, -R[2, 0]))),
                         math.atan2(R[2, 1], R[2, 2])])
    raise ValueError(rep)


_USER_GROUPS = {}


def group_of(X):
    import cyecca.lie as L
    g = X["g"]
    if g == "SO3":
        return {"quat": L.SO3Quat, "mrp": L.SO3Mrp, "dcm": L.SO3Dcm, "euler": L.SO3EulerB321}[X["rep"]]
    if g in ("SE3", "SE23") and X["rep"] in ("dcm", "euler"):
        # user-built groups (the classes are generic over the SO(3) parameterisation): one object per (class, rep)
        key = (g, X["rep"])
        if key not in _USER_GROUPS:
            from cyecca.lie.group_se3 import SE3LieGroup
            from cyecca.lie.group_se23 import SE23LieGroup
            S = {"dcm": L.SO3Dcm, "euler": L.SO3EulerB321}[X["rep"]]
            _USER_GROUPS[key] = (SE3LieGroup if g == "SE3" else SE23LieGroup)(SO3=S)
        return _USER_GROUPS[key]
    if g == "SE3":
        return {"quat": L.SE3Quat, "mrp": L.SE3Mrp}[X["rep"]]
    if g == "SE23":
        return {"quat": L.SE23Quat, "mrp": L.SE23Mrp}[X["rep"]]
    if g == "SO2":
        return L.SO2
    if g == "SE2":
        return L.SE2
    if g == "Rn":
        return {2: L.R2, 3: L.R3}[len(X["x"])]
    if g == "Prod":
        G = group_of(X["fs"][0])
        for f in X["fs"][1:]:
            G = G * group_of(f)
        return G
    raise ValueError(g)


def group_key(X):
    g = X["g"]
    if g in ("SO3", "SE3", "SE23"):
        return f"{g}{X['rep']}"
    if g == "Rn":
        return f"R{len(X['x'])}"
    if g == "Prod":
        return "(" + "*".join(group_key(f) for f in X["fs"]) + ")"
    return g


def embed(X):
    g = X["g"]
    if g == "SO3":
        return so3_param(X["rep"], X["q"])
    if g == "SE3":
        return np.concatenate([np.array(X["p"], float) / X["pd"], so3_param(X["rep"], X["q"])])
    if g == "SE23":
        return np.concatenate([np.array(X["p"], float) / X["pd"], np.array(X["v"], float) / X["pd"],
                               so3_param(X["rep"], X["q"])])
    if g == "SO2":
        return np.array([math.atan2(X["cs"][1], X["cs"][0])])
    if g == "SE2":
        return np.array([X["p"][0] / X["pd"], X["p"][1] / X["pd"], math.atan2(X["cs"][1], X["cs"][0])])
    if g == "Rn":
        return np.array(X["x"], float) / X["pd"]
    if g == "Prod":
        return np.concatenate([embed(f) for f in X["fs"]])
    raise ValueError(g)


def rm_to_np(rm):
    return np.array(rm["num"], float) / float(rm["den"])


class FnCache:
    """ca.Function builders per (group key, operation), built once from the working tree."""
    def __init__(self):
        self.c = {}

    def get(self, key, builder):
        if key not in self.c:
            try:
                self.c[key] = builder()
                from harness import cas as _cas
                _cas.register(self.c[key], key, builder)
            except NotImplementedError as e:
                self.c[key] = ("notimpl", e)
            except Exception as e:  # construction itself failed (e.g. TypeError inside the library)
                self.c[key] = ("error", e)
        return self.c[key]


def sym_elem(G, name):
    p = ca.SX.sym(name, G.n_param)
    return p, G.elem(p)


# --------------------------------------------------------------------------------------
# prelude: what a program has typically done BEFORE the calls a check looks at
# --------------------------------------------------------------------------------------
def prelude(run, report=(), order="others_first"):
    """Run at the very start of the Lie-group checks, before any function is built.  A user program rarely starts with a
    dense symbolic element: it starts with G.identity() (a structurally EMPTY parameter vector), with elements filled
    entry by entry, and possibly with another Euler group of its own.  State that such first uses leave behind
    (a Function cached with the sparsity of the first argument, a table shared between Euler groups and keyed only by
    the axis letters, ...) then corrupts the ordinary calls that follow, which the check sees.  The prelude's own
    results are compared with plain numpy; disagreements are reported as violations only by the checks whose property
    covers them (`report` holds the clause families: "identity", "matrix", "convert", "adjoint", "log"), otherwise they are only counted.
    order: "others_first" uses the user-built Euler groups before SO3EulerB321 (so that B321, which everything else
    uses, is the one that inherits their state), "b321_first" the other way round (C07 runs it in a second process)."""
    import cyecca.lie as L
    from cyecca.lie.group_so3 import SO3EulerLieGroup, EulerType, Axis
    tol = 1e-9
    out = []

    def rx(a): c, s = math.cos(a), math.sin(a); return np.array([[1, 0, 0], [0, c, -s], [0, s, c]])
    def ry(a): c, s = math.cos(a), math.sin(a); return np.array([[c, 0, s], [0, 1, 0], [-s, 0, c]])
    def rz(a): c, s = math.cos(a), math.sin(a); return np.array([[c, -s, 0], [s, c, 0], [0, 0, 1]])
    ROT = {"x": rx, "y": ry, "z": rz}
    tri = [0.3, -0.4, 0.5]

    def num(x):
        return np.array(ca.DM(ca.densify(x)))

    def bad(fam, key, what, data):
        out.append((fam, key, what, data))
        if run is None:
            return
        if fam in report:
            run.violation(f"prelude/{key}", what, data)
        else:
            run.count("prelude_disagreements_not_in_scope")

    def tick():
        if run is not None:
            run.count("prelude_checks")

    def part_identity():
        groups = {"SO2": L.SO2, "SE2": L.SE2, "R3": L.R3, "SO3Quat": L.SO3Quat, "SO3Mrp": L.SO3Mrp, "SO3Dcm": L.SO3Dcm,
                  "SO3EulerB321": L.SO3EulerB321, "SE3Quat": L.SE3Quat, "SE3Mrp": L.SE3Mrp, "SE23Quat": L.SE23Quat, "SE23Mrp": L.SE23Mrp}
        for name, G in groups.items():
            try:
                try:            # first use of every element-level method: exp of a structurally EMPTY algebra element (sparse parameters)
                    Z = G.algebra.elem(ca.SX(G.algebra.n_param, 1)).exp(G)
                    for meth_ in ("left_jacobian", "right_jacobian", "to_Matrix", "Ad", "inverse", "log"):
                        try:
                            getattr(Z, meth_)()
                        except Exception:   # noqa
                            pass
                except Exception:           # noqa
                    pass
                E = G.identity()
                M = num(E.to_Matrix()); tick()
                if M.shape[0] != M.shape[1] or np.max(np.abs(M - np.eye(M.shape[0]))) > tol:
                    bad("identity", f"{name}/identity/to_Matrix", "the matrix of G.identity() is not the identity matrix", {"group": name, "got": M.tolist()})
                M2 = num((E * E).to_Matrix()); tick()
                if np.max(np.abs(M2 - np.eye(M.shape[0]))) > tol:
                    bad("identity", f"{name}/identity/product", "identity * identity is not the identity", {"group": name, "got": M2.tolist()})
                Mi = num(E.inverse().to_Matrix()); tick()
                if np.max(np.abs(Mi - np.eye(M.shape[0]))) > tol:
                    bad("identity", f"{name}/identity/inverse", "identity^-1 is not the identity", {"group": name, "got": Mi.tolist()})
                for meth_ in ("left_jacobian", "right_jacobian", "left_jacobian_inv", "right_jacobian_inv", "Ad", "log"):
                    try:        # then the identity element itself
                        getattr(E, meth_)()
                    except Exception:       # noqa
                        pass
            except NotImplementedError:
                pass
            except Exception as ex:     # noqa
                bad("identity", f"{name}/identity/raises", f"{type(ex).__name__}: {ex}", {"group": name})
        reps = {"quat": L.SO3Quat, "mrp": L.SO3Mrp, "dcm": L.SO3Dcm, "euler": L.SO3EulerB321}
        meth = {"quat": "from_Quat", "mrp": "from_Mrp", "dcm": "from_Dcm", "euler": "from_Euler"}
        for a, Ga in reps.items():
            for b, Gb in reps.items():
                if a == b:
                    continue
                try:
                    M = num(getattr(Gb, meth[a])(Ga.identity()).to_Matrix()); tick()
                    if np.max(np.abs(M - np.eye(3))) > tol:
                        bad("convert", f"{a}->{b}/identity", "converting the identity element does not give the identity rotation", {"got": M.tolist()})
                except Exception as ex:     # noqa
                    bad("convert", f"{a}->{b}/identity/raises", f"{type(ex).__name__}: {ex}", {})

    def part_sparse():
        e = ca.SX(3, 1); e[1] = 0.3            # only the pitch entry is stored
        try:
            M = num(L.SO3EulerB321.elem(e).to_Matrix()); tick()
            if np.max(np.abs(M - ry(0.3))) > tol:
                bad("matrix", "euler/sparse_pitch_only/to_Matrix", "Euler element with only the pitch entry stored: matrix is not Ry(pitch)", {"got": M.tolist()})
        except Exception as ex:     # noqa
            bad("matrix", "euler/sparse_pitch_only/raises", f"{type(ex).__name__}: {ex}", {})

    def part_other_euler():
        for tname, et, body in (("space_fixed", EulerType.space_fixed, False), ("body_fixed", EulerType.body_fixed, True)):
            for seq in ("zyx", "xyz", "zxz"):
                if body and seq == "zyx":
                    continue            # that is B321 itself
                try:
                    G = SO3EulerLieGroup(euler_type=et, sequence=[getattr(Axis, c) for c in seq])
                    M = num(G.elem(ca.DM(tri)).to_Matrix()); tick()
                    R = np.eye(3)
                    for c, a in zip(seq, tri):
                        R = R @ ROT[c](a) if body else ROT[c](a) @ R       # intrinsic: post-multiply; extrinsic: pre-multiply
                    if np.max(np.abs(M - R)) > tol:
                        bad("convert", f"euler:{tname}:{seq}/to_Matrix", "Euler-angle matrix of a user-built Euler group differs from the product of its axis rotations",
                            {"angles": tri, "got": M.tolist(), "want": R.tolist()})
                    try:                    # log and the conversions OUT of a user-built Euler group go through from_Euler
                        w = num(G.elem(ca.DM(tri)).log().param).flatten(); tick()
                        ang = math.acos(max(-1.0, min(1.0, (np.trace(R) - 1) / 2)))
                        want = ang / (2 * math.sin(ang)) * np.array([R[2, 1] - R[1, 2], R[0, 2] - R[2, 0], R[1, 0] - R[0, 1]])
                        if w.shape != (3,) or np.max(np.abs(w - want)) > tol:
                            bad("log", f"euler:{tname}:{seq}/log", "log of an element of a user-built Euler group is not the rotation vector of its matrix",
                                {"angles": tri, "got": w.tolist(), "want": want.tolist()})
                    except NotImplementedError:
                        pass
                    for tgt, Gt in (("quat", L.SO3Quat), ("mrp", L.SO3Mrp), ("dcm", L.SO3Dcm)):
                        try:
                            Mt = num(Gt.from_Euler(G.elem(ca.DM(tri))).to_Matrix()); tick()
                            if np.max(np.abs(Mt - R)) > tol:
                                bad("convert", f"euler:{tname}:{seq}->{tgt}/from_Euler", "conversion of an element of a user-built Euler group changes the rotation",
                                    {"angles": tri, "got": Mt.tolist(), "want": R.tolist()})
                        except NotImplementedError:
                            pass
                    try:                    # Ad_X y = vee(X y^ X^-1): on SO(3) that is the rotation matrix itself
                        A = num(G.elem(ca.DM(tri)).Ad()); tick()
                        if A.shape != (3, 3) or np.max(np.abs(A - R)) > tol:
                            bad("adjoint", f"euler:{tname}:{seq}/Ad", "Ad of an element of a user-built Euler group is not conjugation (X y^ X^-1 = (R y)^)",
                                {"angles": tri, "got": A.tolist(), "want": R.tolist()})
                    except NotImplementedError:
                        pass
                except Exception as ex:     # noqa
                    bad("convert", f"euler:{tname}:{seq}/raises", f"{type(ex).__name__}: {ex}", {})

    def part_b321():
        try:
            M = num(L.SO3EulerB321.elem(ca.DM(tri)).to_Matrix()); tick()
            R = rz(tri[0]) @ ry(tri[1]) @ rx(tri[2])
            if np.max(np.abs(M - R)) > tol:
                bad("convert", "euler:B321/to_Matrix", "B321 matrix differs from Rz Ry Rx (after other Euler groups / sparse elements were used)", {"got": M.tolist(), "want": R.tolist()})
        except Exception as ex:     # noqa
            bad("convert", "euler:B321/raises", f"{type(ex).__name__}: {ex}", {})

    if order == "others_first":
        part_other_euler(); part_identity(); part_sparse(); part_b321()
    else:
        part_b321(); part_sparse(); part_identity(); part_other_euler(); part_b321()
    return out


def touch_all():
    """what a program that uses the models has usually done with the Lie-group API before it derives them: a pass over
    the element-level operations of every group on plain numbers (results discarded).  Whatever these first uses leave
    behind in the group objects (memoised Functions, slots shared by two methods, tables keyed too coarsely) is then
    inherited by the model derivations the check looks at.  Order: the LEFT variants before the right ones, inverses
    after, identity elements first -- the opposite of what the shipped models need first."""
    import cyecca.lie as L
    def sink(*a):
        pass
    try:
        prelude(None)
    except Exception:       # noqa
        pass
    qv = [0.5, 0.5, -0.5, 0.5]
    elems = [(L.SO3Quat, qv), (L.SO3Mrp, [0.2, -0.3, 0.1]), (L.SO3Dcm, None), (L.SO3EulerB321, [0.3, -0.4, 0.5]),
             (L.SE3Quat, [1, 2, 3] + qv), (L.SE3Mrp, [1, 2, 3, 0.2, -0.3, 0.1]), (L.SE23Quat, [1, 2, 3, -1, 0, 2] + qv),
             (L.SE23Mrp, [1, 2, 3, -1, 0, 2, 0.2, -0.3, 0.1]), (L.SE2, [1, -2, 0.7]), (L.SO2, [0.7]), (L.R3, [1, 2, 3])]
    for G, p in elems:
        try:
            X = G.elem(ca.DM(p)) if p is not None else L.SO3Dcm.from_Quat(L.SO3Quat.elem(ca.DM(qv)))
        except Exception:   # noqa
            continue
        for name in ("left_jacobian", "right_jacobian", "left_jacobian_inv", "right_jacobian_inv", "Ad", "to_Matrix", "inverse", "log"):
            try:
                sink(getattr(X, name)())
            except Exception:   # noqa
                pass
        try:
            sink((X * X.inverse()).to_Matrix())
        except Exception:   # noqa
            pass
    for alg, p in ((L.so3, [0.3, -0.2, 0.1]), (L.se3, [1, 2, 3, 0.3, -0.2, 0.1]), (L.se23, [1, 2, 3, -1, 0, 2, 0.3, -0.2, 0.1]), (L.se2, [1, -2, 0.7])):
        try:
            x = alg.elem(ca.DM(p))
        except Exception:   # noqa
            continue
        for name in ("left_jacobian", "right_jacobian", "left_jacobian_inv", "right_jacobian_inv", "ad", "to_Matrix"):
            try:
                sink(getattr(x, name)())
            except Exception:   # noqa
                pass


if __name__ == "__main__":      # python -m harness.lie <order>  -> JSON list of disagreements (second-process prelude of C07)
    import sys, json, io, contextlib
    with contextlib.redirect_stdout(io.StringIO()):
        res = prelude(None, order=sys.argv[1] if len(sys.argv) > 1 else "b321_first")
    print(json.dumps([[f, k, w, d] for f, k, w, d in res]))
