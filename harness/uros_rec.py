"""C20 helper: an instrumented `World` around the real cyecca.sim.uros classes.

The World performs the public API calls that correspond to the actions of spec/UrosBus.tla
(create publisher/subscriber/param/logger, init_params, set_param, run, publish, event-loop
steps) on REAL Core/Publisher/Subscriber/Param/Logger objects and records one event dict per
uros critical section (the NDJSON lines of engine C / the step stream of engine B).

Observation is API-level only (no source hook needed):
  * recording wrappers around the callbacks of test subscribers (public ctor argument),
    around `logger.callback`, and around `Subscriber.callback` of real nodes (public attr);
  * `uros.Publisher.publish` is wrapped in this process only (class attribute swapped for the
    lifetime of the World, restored by close()), which gives begin/end/nesting depth;
  * `logger.data_list` is replaced by a list subclass whose append() reports the row.
Messages of user topics are ONE reused mutable object per topic whose `time` field carries
the message id: a logger that does not deep-copy would alias later ids into earlier rows.
Independent of TLC the World evaluates the property clauses of C20 directly on the recorded
histories (`check_props`), which is what the in-memory mutation self-tests rely on.
"""
from __future__ import annotations

import math

Q = 128000                      # time quanta per second: 1/200 s = 640, 2**-10 s = 125, 1 ms = 128
LDT = "logger/dt"


def quanta(t: float) -> int:
    r = round(t * Q)
    if abs(t * Q - r) > 1e-6:
        raise ValueError(f"time {t!r} is not a whole number of 1/{Q} s")
    return int(r)


def pname(p):            # model name -> uros name
    return LDT if p == "ldt" else p


def mname(p):
    return "ldt" if p == LDT else p


class _RowList(list):
    def __init__(self, world):
        super().__init__()
        self.world = world

    def append(self, row):
        super().append(row)
        self.world._on_row(row)


_active = None
_orig_publish = None
MUTANT_PUBLISH = None       # self-test only: a known-bad replacement of Publisher.publish (this process only)


def _install(uros):
    global _orig_publish
    if _orig_publish is not None:
        return
    _orig_publish = uros.Publisher.publish

    def publish(self, msg):
        w = _active
        if w is None or self.core is not w.core:
            return _orig_publish(self, msg)
        return w._on_publish(self, msg)
    publish._c20_wrapper = True
    uros.Publisher.publish = publish


def _uninstall(uros):
    global _orig_publish
    if _orig_publish is not None:
        uros.Publisher.publish = _orig_publish
        _orig_publish = None


class World:
    def __init__(self, type_map=None):
        global _active
        import cyecca.sim.uros as uros
        import cyecca.sim.msgs as msgs
        self.uros, self.msgs = uros, msgs
        self.types = type_map or {"A": msgs.Imu, "B": msgs.Mag, "X": msgs.Attitude}
        _install(uros)
        _active = None
        self.core = uros.Core()
        # a processed event lets Core.run() return right after its broadcast (simpy: an
        # `until` event that has already been processed returns immediately)
        self._done = self.core.event()
        self._done.succeed()
        self.core.step()
        _active = self
        self.ev = []                     # recorded event lines
        self.stack = []                  # active publish() calls (python truth)
        self.absorb = None               # line of the API call whose internal publish is running
        self.cur_ty = None
        self.nmsg = 0
        self.reent = False
        self.pubs = {"params": self.core.pub_params}       # topic -> Publisher object we hold
        self.ptype = {"params": "Params"}
        self.msgobj = {}                 # topic -> reused message object
        self.sub = {}                    # id -> dict(topic, kind, out, budget, since, fired, params[], obj)
        self.sent = {"params": []}
        self.recv = {}
        self.lrecv = {}
        self.lsince = {}
        self.param = {}                  # uros name -> Param object
        self.owner = {}
        self.logger = None
        self.inited = False
        self.running = False
        self.rows = []                   # dict(t, dt, latest{topic:id}, lpar{p:v}, hl, hp)
        self.procs = {}
        self.proc_mode = False
        self.content_ids = True          # harness messages carry their id in `time`; real nodes do not
        self.ltime = {}                  # topic -> time stamp inside the message last delivered to the logger
        self.problems = []               # (key, what, data) property-level findings
        self.callback_error = None
        self.param_hist = []             # core values after each broadcast: (msg id, {name: value})

    def close(self):
        global _active
        _active = None
        _uninstall(self.uros)

    # ------------------------------------------------------------------ recording
    def emit(self, **line):
        self.ev.append(line)
        return line

    def problem(self, key, what, data=None):
        self.problems.append((key, what, data))

    def _on_publish(self, pub, msg):
        topic = pub.topic
        self.nmsg += 1
        mid = self.nmsg
        line = self.absorb
        self.absorb = None
        nested = len(self.stack) > 0
        if line is None:
            if nested:
                line = self.emit(a="Nested", topic=topic, msg=mid)
            elif self.proc_mode:        # a real node's own simpy process (e.g. Simulator.run) publishes
                line = self.emit(a="ProcPublish", topic=topic, t_now=self.now(), msg=mid)
            else:
                line = self.emit(a="PublishBegin", topic=topic, ty=self.cur_ty or type(msg).__name__, err="ok", msg=mid)
                self._begin_ty = self.cur_ty
        elif line.get("a") in ("Wake", "ProcPublish"):
            line["msg"] = mid
        if any(f["topic"] == topic for f in self.stack):
            self.reent = True
        fr = {"topic": topic, "msg": mid, "n": 0}
        self.stack.append(fr)
        self.sent.setdefault(topic, []).append(mid)
        if getattr(msg, "_c20", False):
            msg.data["time"] = float(mid)                  # id travels inside the message
        try:
            (MUTANT_PUBLISH or _orig_publish)(pub, msg)
        except BaseException as e:
            self.stack.pop()
            if fr["n"] == 0 and self.callback_error is None:
                # rejected before any delivery: nothing was published
                self.sent[topic].pop()
                self.nmsg -= 1
                if line.get("a") == "PublishBegin":
                    line["err"] = "type"
                    line.pop("msg", None)
                line["exc"] = type(e).__name__
            else:
                self.callback_error = self.callback_error or repr(e)
            raise
        self.stack.pop()
        if getattr(msg, "_c20", False) and not nested and topic in self.msgobj and msg is self.msgobj[topic]:
            # like the real nodes (e.g. AttitudeEstimator.msg_est_status) the publisher keeps ONE message object and
            # fills in fields for the NEXT publication ahead of time: a staged value that was never published must
            # not show up anywhere (a logger that keeps a reference instead of a copy would log it)
            msg.data["time"] = -float(mid) - 0.5
        if line.get("a") == "PublishBegin" and getattr(self, "_begin_ty", None) is not None \
                and topic in self.ptype and self._begin_ty != self.ptype[topic]:
            self.problem("publish/wrong-type/accepted", f"a message of type {self._begin_ty} was accepted on topic {topic} of type {self.ptype[topic]}")
        if topic == "params" and self.inited:
            self.param_hist.append((mid, self.core_params()))
        self.emit(a="PublishEnd", topic=topic, msg=mid)

    def _wrap(self, sid, topic, cb):
        def wrapped(msg):
            if not self.stack:
                self.problem("publish/stranger/outside-publish", f"callback of subscriber {sid} ran outside any publish")
                return cb(msg)
            fr = self.stack[-1]
            fr["n"] += 1
            self.emit(a="Deliver", topic=fr["topic"], msg=fr["msg"], sub=sid, depth=len(self.stack))
            if fr["topic"] != topic:
                self.problem("publish/stranger/other-topic",
                             f"subscriber {sid} of topic {topic} received a message of topic {fr['topic']}")
            if getattr(msg, "_c20", False) and int(msg.data["time"]) != fr["msg"]:
                self.problem("publish/content/id", f"subscriber {sid} saw id {msg.data['time']} inside message {fr['msg']}")
            if sid == 0:
                self.lrecv.setdefault(fr["topic"], []).append(fr["msg"])
                if fr["topic"] != "params":
                    self.ltime[fr["topic"]] = float(msg.data["time"])
            else:
                self.recv[sid].append(fr["msg"])
            return cb(msg)
        return wrapped

    def _on_row(self, row):
        lg = self.logger
        latest, lpar = {}, {}
        for t in lg.subs:
            if t == "params":
                for n in row["params"].dtype.names:
                    if n != "time":
                        v = float(row["params"][n])
                        lpar[mname(n)] = -1 if math.isnan(v) else self.enc(n, v)
                latest[t] = self.lrecv[t][-1] if self.lrecv.get(t) else -1      # Params carry no id
            else:
                v = float(row[t]["time"])
                if self.content_ids:
                    latest[t] = -1 if math.isnan(v) else int(v)
                else:                   # real nodes: compare the time stamp with the one delivered last
                    exp = self.ltime.get(t, float("nan"))
                    same = (v == exp) or (math.isnan(v) and math.isnan(exp))
                    latest[t] = (self.lrecv[t][-1] if self.lrecv.get(t) else -1) if same else -2
        r = {"t": quanta(float(row["time"])), "dt": quanta(lg.dt.get()), "latest": latest, "lpar": lpar,
             "hl": {t: (self.lrecv[t][-1] if self.lrecv.get(t) else -1) for t in lg.subs},
             "hp": self.core_params() if self.inited else {}, "ltime": dict(self.ltime)}
        self.rows.append(r)
        self.emit(a="LoggerRow", t_now=r["t"], dt=r["dt"], latest=dict(latest),
                  lpar={k: v for k, v in lpar.items()})

    # ------------------------------------------------------------------ encoding of values
    # user parameter values of the spec (small naturals) are realised as floats that differ only in the 6th digit
    # (1 + 3e-6 v): an update must be taken over exactly, however small it is relative to the old value
    def enc(self, name, v):
        return quanta(v) if name == LDT else int(round((v - 1.0) / 3e-6))

    def dec(self, name, v):
        return v / Q if name == LDT else 1.0 + 3e-6 * float(v)

    def core_params(self):
        out = {}
        for n in self.param:
            try:
                out[mname(n)] = self.enc(n, float(self.core.get_param(n)))
            except Exception:
                out[mname(n)] = -1
        return out

    def caches(self):
        return {mname(n): self.enc(n, float(p.get())) for n, p in self.param.items()}

    def now(self):
        return quanta(float(self.core.now))

    # ------------------------------------------------------------------ API calls = model actions
    def _try(self, line, fn, errname):
        try:
            fn()
            line["err"] = "ok"
        except BaseException as e:          # AssertionError, ValueError, AttributeError, beartype ...
            if self.callback_error:
                raise
            line["err"] = errname(e) if callable(errname) else errname
            line["exc"] = type(e).__name__
        return line["err"]

    def create_publisher(self, topic, ty):
        line = self.emit(a="CreatePublisher", topic=topic, ty=ty)
        cls = self.msgs.Params if ty == "Params" else self.types[ty]
        box = {}
        err = self._try(line, lambda: box.setdefault("p", self.uros.Publisher(self.core, topic, cls)),
                        lambda e: "locked" if self.core.pub_sub_locked else "dup")
        if err == "ok":
            self.pubs[topic] = box["p"]
            self.ptype[topic] = ty
            self.msgobj[topic] = cls()
            self.msgobj[topic]._c20 = True
            self.sent.setdefault(topic, [])
        return err

    def create_subscriber(self, sid, topic, kind, out="none", budget=0):
        line = self.emit(a="CreateSubscriber", sub=sid, topic=topic, kind=kind, out=out, budget=budget)
        node = {"topic": topic, "kind": kind, "out": out, "budget": budget, "fired": 0, "params": [],
                "since": len(self.sent.get(topic, []))}

        def cb(msg, node=node):
            if node["kind"] == "follower":
                for p in node["params"]:
                    p.update()
            elif node["kind"] == "relay" and node["fired"] < node["budget"] and node["out"] in self.pubs:
                node["fired"] += 1
                self.raw_publish(node["out"], self.ptype[node["out"]], fresh=True)
        cls = self.msgs.Params if topic == "params" else self.types.get(self.ptype.get(topic, "A"), self.msgs.Imu)
        err = self._try(line, lambda: node.setdefault("obj", self.uros.Subscriber(self.core, topic, cls, self._wrap(sid, topic, cb))),
                        "locked")
        if err == "ok":
            self.sub[sid] = node
            self.recv[sid] = []
        return err

    def declare_param(self, p, owner, v):
        line = self.emit(a="DeclareParam", p=p, owner=owner, v=v)
        box = {}
        err = self._try(line, lambda: box.setdefault("p", self.uros.Param(self.core, pname(p), self.dec(pname(p), v), "f8")),
                        lambda e: "locked" if self.core.pub_sub_locked else "dup")
        if err == "ok":
            self.param[pname(p)] = box["p"]
            self.owner[pname(p)] = owner
            if owner > 0:
                self.sub[owner]["params"].append(box["p"])
        return err

    def create_logger(self):
        line = self.emit(a="CreateLogger")
        box = {}
        err = self._try(line, lambda: box.setdefault("l", self.uros.Logger(self.core)), "locked")
        if err == "ok":
            lg = self.logger = box["l"]
            self.adopt_logger(lg)
        return err

    def adopt_logger(self, lg):
        self.logger = lg
        lg.data_list = _RowList(self)
        self.param[LDT] = lg.dt
        self.owner[LDT] = 0
        for t in lg.subs:
            self.lsince[t] = len(self.sent.get(t, []))
            self.lrecv[t] = []
        # observe the deliveries to the logger at its Subscriber objects (public attribute `callback`, looked up by the bus
        # at every delivery): independent of how the logger binds its own method (lambda, functools.partial, ...)
        subs = lg.subs
        if isinstance(subs, dict) and subs and all(hasattr(s_, "callback") for s_ in subs.values()):
            for t, s_ in subs.items():
                s_.callback = self._wrap(0, t, s_.callback)
        else:
            # fall back: the logger's per-topic lambdas call self.callback(topic, msg): wrap the instance attribute
            inner = lg.callback

            def cb(topic, msg):
                return self._wrap(0, topic, lambda m: inner(topic, m))(msg)
            lg.callback = cb

    def init_params(self):
        self.emit(a="InitParams")
        self.core.init_params()
        self.inited = True

    def set_param(self, p, v):
        line = self.emit(a="SetParam", p=p, v=v)
        self.absorb = line
        err = self._try(line, lambda: self.core.set_param(pname(p), self.dec(pname(p), v)),
                        lambda e: "noinit" if not self.inited else "nofield")
        self.absorb = None
        return err

    def run(self):
        line = self.emit(a="Run")
        self.absorb = line
        self.core.run(until=self._done)      # Core.run: init if needed, broadcast; simpy returns at once
        self.absorb = None
        self.inited = True
        self.running = True

    def raw_publish(self, topic, ty, fresh=False):
        """publish a message of type name ty with the publisher of `topic`.  Top-level publishes of the right
        type reuse ONE message object per topic (like the real nodes do); a relay publishes a fresh object
        (its publish may overlap an unfinished fan-out of the same topic)."""
        if ty == "Params":
            msg = self.core._params if topic == "params" else self.msgs.Params(self.core)
        elif ty == self.ptype.get(topic):
            msg = self.msgobj[topic]
            if fresh:
                msg = type(msg)()
                msg._c20 = True
        else:
            msg = self.types[ty]() if ty in self.types else self.msgs.Attitude()
        self.cur_ty = ty
        try:
            self.pubs[topic].publish(msg)
        finally:
            self.cur_ty = None

    def publish(self, topic, ty):
        n0 = len(self.ev)
        try:
            self.raw_publish(topic, ty)
            return "ok"
        except BaseException:
            if self.callback_error:
                raise
            if len(self.ev) == n0:      # rejected by beartype before the wrapper even ran? (not a Msg)
                self.emit(a="PublishBegin", topic=topic, ty=ty, err="type")
            return "type"

    def step(self):
        """one simpy event"""
        self.core.step()

    # harness processes (engine C) ------------------------------------------------------
    def start_proc(self, name, off, script):
        """script: list of (cmd, d) with cmd = ("pub", topic) | ("set", p, v) | ("nop",); times in quanta"""
        import simpy
        self.emit(a="StartProc", proc=name, off=off)
        w = self

        def gen():
            yield simpy.Timeout(w.core, off / Q)
            for cmd, d in script:
                line = w.emit(a="Wake", proc=name, k=cmd[0], d=d, t_now=w.now())
                if cmd[0] == "pub":
                    line["topic"] = cmd[1]
                    w.absorb = line
                    w.raw_publish(cmd[1], w.ptype[cmd[1]])
                elif cmd[0] == "set":
                    line["p"], line["v"] = cmd[1], cmd[2]
                    w.absorb = line
                    w.core.set_param(pname(cmd[1]), w.dec(pname(cmd[1]), cmd[2]))
                    line["msg"] = w.nmsg
                w.absorb = None
                yield simpy.Timeout(w.core, d / Q)
        self.procs[name] = simpy.Process(self.core, gen())

    def run_until(self, t_quanta):
        """run the simpy loop (without Core.run's extra broadcast) up to a time"""
        import simpy
        simpy.Environment.run(self.core, until=t_quanta / Q)

    def obs(self):
        self.emit(a="Obs", cache=self.caches(), idle=0 if self.stack else 1)

    # ------------------------------------------------------------------ the property, evaluated directly
    def check_props(self):
        """C20 first sentence on the recorded histories (only meaningful when no publish is active)."""
        out = []
        order_key = "publish/order/reentrant-same-topic" if self.reent else "publish/order/non-reentrant"

        def one(who, got, exp):
            if sorted(got) != sorted(exp):
                miss = [m for m in exp if m not in got]
                dup = [m for m in set(got) if got.count(m) > 1]
                strange = [m for m in got if m not in exp]
                if miss:
                    out.append(("publish/exactly-once/missing", f"{who} never received {miss} (owed {exp}, got {got})"))
                if dup:
                    out.append(("publish/exactly-once/duplicate", f"{who} received {dup} more than once"))
                if strange:
                    out.append(("publish/stranger/not-owed", f"{who} received {strange} which it is not owed"))
            elif got != exp:
                out.append((order_key, f"{who} received {got}, publication order is {exp}"))
        for sid, node in self.sub.items():
            one(f"subscriber {sid} of {node['topic']}", self.recv[sid], self.sent.get(node["topic"], [])[node["since"]:])
        for t, got in self.lrecv.items():
            one(f"logger subscriber of {t}", got, self.sent.get(t, [])[self.lsince[t]:])
        # parameters: every follower that got the latest broadcast holds the core's values
        if self.inited and self.sent["params"]:
            lastb = self.sent["params"][-1]
            core = self.core_params()
            hist = dict(self.param_hist)
            if hist.get(lastb) == core:            # nothing changed silently since the broadcast (re-init)
                for n, p in self.param.items():
                    o = self.owner.get(n, -2)
                    got_last = (o > 0 and self.recv[o] and self.recv[o][-1] == lastb) or \
                               (o == 0 and self.lrecv.get("params") and self.lrecv["params"][-1] == lastb)
                    if got_last and self.enc(n, float(p.get())) != core[mname(n)]:
                        out.append(("params/not-seen", f"{n}: follower holds {p.get()} after the broadcast, core has {self.core.get_param(n)}"))
        # logger rows
        for k, r in enumerate(self.rows):
            if r["latest"] != r["hl"]:
                out.append(("logger/row/latest", f"row {k} at t={r['t']} holds {r['latest']}, latest delivered were {r['hl']}"))
            if r["hl"].get("params", -1) != -1 and r["lpar"] != r["hp"]:
                out.append(("logger/row/params", f"row {k}: params {r['lpar']} but the core had {r['hp']}"))
            if k > 0:
                p = self.rows[k - 1]
                if r["t"] < p["t"]:
                    out.append(("logger/row/time-decreasing", f"row {k}: t={r['t']} after t={p['t']}"))
                if r["t"] != p["t"] + p["dt"]:
                    out.append(("logger/row/period", f"row {k}: t={r['t']} but previous row t={p['t']} with period {p['dt']}"))
        return out + [(k, w) for k, w, _ in self.problems]

    def final_log_check(self):
        """the array returned by the public Logger.get_log_as_array() must equal what was recorded row by
        row at append time (aliasing through a missing deep copy shows up here)"""
        out = []
        if self.logger is None or not self.rows:
            return out
        arr = self.logger.get_log_as_array()
        if len(arr) != len(self.rows):
            out.append(("logger/row/count", f"log has {len(arr)} rows, {len(self.rows)} were appended"))
            return out
        for k, r in enumerate(self.rows):
            if quanta(float(arr["time"][k])) != r["t"]:
                out.append(("logger/row/time-aliased", f"row {k}: time {arr['time'][k]} differs from {r['t']} at append"))
            for t, mid in r["latest"].items():
                if t == "params":
                    continue
                v = float(arr[t]["time"][k])
                if not self.content_ids:
                    exp = r["ltime"].get(t, float("nan"))
                    if not (v == exp or (math.isnan(v) and math.isnan(exp))):
                        out.append(("logger/row/aliased", f"row {k} topic {t}: final log holds time stamp {v}, at append it held {exp}"))
                    continue
                got = -1 if math.isnan(v) else int(v)
                if got != mid:
                    out.append(("logger/row/aliased", f"row {k} topic {t}: final log holds message {got}, at append it held {mid}"))
        return out


# --------------------------------------------------------------------------------------
# a literal script for the re-entrancy finding (also printed in the report)
# --------------------------------------------------------------------------------------
REENTRANT_SCRIPT = '''
import cyecca.sim.uros as uros, cyecca.sim.msgs as msgs
core, got, n = uros.Core(), [], [0]
def relay(pub_name):
    def cb(m):
        if n[0] < 1: n[0] += 1; x = msgs.Imu(); x.data["time"] = 2; pubs[pub_name].publish(x)
    return cb
pubs = {"a": uros.Publisher(core, "a", msgs.Imu), "b": uros.Publisher(core, "b", msgs.Imu)}
uros.Subscriber(core, "b", msgs.Imu, relay("a"))            # 1st subscriber of b republishes on a
uros.Subscriber(core, "a", msgs.Imu, lambda m: pubs["b"].publish(m))   # a's subscriber republishes on b
uros.Subscriber(core, "b", msgs.Imu, lambda m: got.append(m.data["time"]))  # 2nd subscriber of b
m = msgs.Imu(); m.data["time"] = 1; pubs["b"].publish(m)
print(got)      # [2.0, 1.0]: b#2 is delivered before b#1
'''
